/-
  C05 — Linting is deterministic, history-independent, read-only and I/O-free.

  Two layers. (1) Theorems about arbitrary effectful calls: if the calls of a history are read-only
  (leave world and object as found) then results do not depend on the history, repetitions agree, and
  the object is unchanged. (2) The hypotheses of (1) for the real code are the footprints regenerated
  from the source on every run (SSA stores through the linted object, stores to package-level
  variables, calls leaving the module, map-range sites), decided here by kernel evaluation against
  hand-written allow-lists — these lists are part of the specification, not generated.

  Partial: that the SSA footprint over-approximates the effects of the Go code (reflection, unsafe,
  third-party internals such as zcrypto's memoised GetParsedDNSNames) is trusted and cross-checked
  dynamically (snapshots, repetitions, histories), not proved.
-/
import ZlModel.World
import ZlModel.Key
import ZlModel.Generated.Registry
import ZlModel.Generated.Sites
namespace Zl.C05
open Zl Generated

/-! ### (1) effect theorems -/

theorem history_world_unchanged {G Obj Out : Type} (h : List (Eff G Obj Out × Obj))
    (hro : ∀ p ∈ h, p.1.readOnly) (g : G) : (runHistory h g).2 = g := by
  induction h generalizing g with
  | nil => rfl
  | cons p rest ih =>
    obtain ⟨c, o⟩ := p
    simp only [runHistory]
    have h1 : (c.run g o).2.1 = g := by have := hro (c, o) List.mem_cons_self g o; rw [this]
    rw [h1]
    exact ih (fun q hq => hro q (List.mem_cons_of_mem _ hq)) g

/-- **History independence**: after any history of read-only calls (other objects, other
    registries, other configurations — all are just calls) a call returns what it returns in the initial world. -/
theorem history_independent {G Obj Out : Type} (h : List (Eff G Obj Out × Obj)) (hro : ∀ p ∈ h, p.1.readOnly)
    (c : Eff G Obj Out) (o : Obj) (g : G) : (c.run (runHistory h g).2 o).1 = (c.run g o).1 := by
  rw [history_world_unchanged h hro g]

/-- **Read-only**: the linted object comes back unchanged. -/
theorem object_unchanged {G Obj Out : Type} (c : Eff G Obj Out) (hro : c.readOnly) (g : G) (o : Obj) :
    (c.run g o).2.2 = o := by rw [hro g o]

/-- **Determinism under repetition**: n repetitions of a read-only call on the same object all give the same output. -/
theorem repetition_constant {G Obj Out : Type} (c : Eff G Obj Out) (hro : c.readOnly) (g : G) (o : Obj) (n : Nat) :
    (runHistory (List.replicate n (c, o)) g).1 = List.replicate n (c.run g o).1 := by
  induction n generalizing g with
  | zero => rfl
  | succ n ih =>
    simp only [List.replicate_succ, runHistory]
    have h1 : (c.run g o).2.1 = g := by rw [hro g o]
    rw [h1, ih g]

/-! ### (2) the regenerated footprints against the specification's allow-lists -/

/-- no lint (constructor, Configure, CheckApplies, Execute and everything they reach inside the
    module) stores through the linted object, and no function of the module does -/
theorem no_object_writes : registrations.all (fun r => r.writes.isEmpty) = true ∧ objectWrites = [] := by decide +kernel

/-- `append(obj.slice, …)` sites (they may write into spare capacity beyond len — invisible in the
    exported fields, reviewed): exactly the onion helpers appending the CN to DNSNames -/
def reviewedAppends : List (String × String) :=
  [ ("(*github.com/zmap/zlint/v3/lints/cabf_br.onionNotValid).Execute", "Certificate.DNSNames"),
    ("(*github.com/zmap/zlint/v3/lints/cabf_br.torServiceDescHashInvalid).Execute", "Certificate.DNSNames"),
    ("github.com/zmap/zlint/v3/util.CertificateSubjInTLD", "Certificate.DNSNames"),
    ("github.com/zmap/zlint/v3/util.IsOnionV2Cert", "Certificate.DNSNames"),
    ("github.com/zmap/zlint/v3/util.IsOnionV3Cert", "Certificate.DNSNames") ]

theorem object_appends_reviewed : objAppends.all (fun a => reviewedAppends.contains a) = true := by decide +kernel

/-- package-level variables are written outside `init` only by the registration API -/
def registrationAPI : List String :=
  [ "github.com/zmap/zlint/v3/lint.RegisterCertificateLint", "github.com/zmap/zlint/v3/lint.RegisterOcspResponseLint",
    "github.com/zmap/zlint/v3/lint.RegisterRevocationListLint", "github.com/zmap/zlint/v3/lint.RegisterLint",
    "github.com/zmap/zlint/v3/lint.RegisterProfile" ]

theorem no_global_writes : globalWrites.all (fun w => registrationAPI.contains w.1) = true
    ∧ registrations.all (fun r => r.globalsWritten.isEmpty) = true := by decide +kernel

/-- packages of pure computation that code on the linting path may call freely -/
def purePackages : List String :=
  [ "fmt", "strings", "bytes", "errors", "sort", "unicode", "unicode/utf8", "unicode/utf16", "strconv", "math/big", "regexp",
    "math", "math/bits", "encoding/binary", "encoding/base64", "encoding/pem", "slices", "maps", "cmp", "html", "hash", "hash/fnv",
    "crypto/sha1", "crypto/sha256", "crypto/sha512", "crypto/md5", "crypto/elliptic", "crypto/subtle",
    "net/url", "net/mail", "encoding/hex", "encoding/asn1", "encoding/base32", "encoding/json", "reflect",
    "crypto/ecdsa", "crypto/rsa", "crypto/x509/pkix",
    "golang.org/x/text/unicode/norm", "golang.org/x/net/idna", "golang.org/x/crypto/cryptobyte", "golang.org/x/crypto/cryptobyte/asn1",
    "golang.org/x/crypto/ocsp",
    "github.com/zmap/zcrypto/encoding/asn1", "github.com/zmap/zcrypto/x509/ct", "github.com/zmap/zcrypto/x509/pkix",
    "github.com/zmap/zcrypto/dsa", "github.com/zmap/zcrypto/cryptobyte", "github.com/zmap/zcrypto/cryptobyte/asn1", "github.com/zmap/zcrypto/util" ]

def purePackageKeys : List Nat := purePackages.map keyOf

/-- kernel-reducible prefix test -/
def startsWithK (s p : String) : Bool := p.toList.isPrefixOf s.toList

/-- function-level rules for the packages that also contain I/O, clock, or shared-state primitives -/
def allowedSpecial (grp pkg callee : String) : Bool :=
  if pkg == "net" then
    callee == "net.ParseIP" || callee == "net.ParseCIDR" || callee == "net.init" || callee == "net.CIDRMask"
      || startsWithK callee "(net.IP)." || startsWithK callee "(*net.IPNet)." || startsWithK callee "(net.IPMask)."
  else if pkg == "time" then
    -- no sleeping, no timers; values, formatting and arithmetic only. `time.Now` is admitted here because every
    -- one of its callers on the linting path must be in `documentedSensitive` (theorem `sensitive_calls_documented`).
    -- Nothing that yields a value in the process's local zone or consults the zone database either (`time.Unix…`, `Local`,
    -- `In`, `LoadLocation`, the variable `time.Local`): calendar arithmetic on such a value depends on TZ / /etc/localtime.
    -- Parsed times carry UTC or the fixed offset they were written with; `Location()` only reads that.
    !(callee == "time.Since" || callee == "time.Until" || callee == "time.Sleep" || callee == "time.After"
      || callee == "time.Tick" || callee == "time.NewTimer" || callee == "time.NewTicker" || callee == "time.AfterFunc"
      || callee == "time.Unix" || callee == "time.UnixMilli" || callee == "time.UnixMicro" || callee == "(time.Time).Local"
      || callee == "(time.Time).In" || callee == "time.LoadLocation" || callee == "time.LoadLocationFromTZData"
      || callee == "time.ParseInLocation" || callee == "var time.Local")
  else if pkg == "github.com/zmap/zcrypto/x509" then
    -- parsed-object accessors yes; anything that verifies a signature or builds chains no
    !(startsWithK callee "(*github.com/zmap/zcrypto/x509.Certificate).Check" || startsWithK callee "(*github.com/zmap/zcrypto/x509.Certificate).Verify"
      || startsWithK callee "(*github.com/zmap/zcrypto/x509.Certificate).CreateCRL" || startsWithK callee "github.com/zmap/zcrypto/x509.Create"
      || startsWithK callee "github.com/zmap/zcrypto/x509.SystemCertPool")
  else if pkg == "sync" then
    -- only the read lock of the lookups, in package lint
    grp == "lint" && (callee == "(*sync.RWMutex).RLock" || callee == "(*sync.RWMutex).RUnlock" || callee == "sync.init")
  else if pkg == "os" then
    -- only NewConfigFromFile (checked by caller below)
    grp == "lint" && (callee == "os.Open" || callee == "(*os.File).Close" || callee == "os.init")
  else if pkg == "io" then grp == "lint"                       -- WriteJSON writes to the writer it is handed
  else if pkg == "github.com/pelletier/go-toml" then grp == "lint"
  else false

/-- **I/O freedom**: every call leaving the module from the linting path goes to a pure package or passes
    a function-level rule (no os/exec, syscall, net dialing or lookups, http, rand, environment, clock
    except the documented sites below, no sync primitives except the lookups' read lock). -/
theorem external_calls_allowed :
    lintPathCalls.all (fun c => purePackageKeys.contains c.2.1 || allowedSpecial c.1 c.2.2.1 c.2.2.2) = true := by decide +kernel

/-- the documented exceptions, by (callee, caller): the time stamp of the three entry points, the two
    lints that compare host names with today's TLD table, the configuration file reader -/
def documentedSensitive : List (String × String) :=
  [ ("time.Now", "github.com/zmap/zlint/v3.LintCertificateEx"), ("time.Now", "github.com/zmap/zlint/v3.LintRevocationListEx"),
    ("time.Now", "github.com/zmap/zlint/v3.LintOcspResponseEx"),
    ("time.Now", "(*github.com/zmap/zlint/v3/lints/cabf_br.subCertAIAInternalName).Execute"),
    ("time.Now", "(*github.com/zmap/zlint/v3/lints/cabf_smime_br.smimeAIAContainsInternalNames).Execute"),
    ("os.Open", "github.com/zmap/zlint/v3/lint.NewConfigFromFile"), ("(*os.File).Close", "github.com/zmap/zlint/v3/lint.NewConfigFromFile"),
    ("os.init", "github.com/zmap/zlint/v3/lint.init") ]

theorem sensitive_calls_documented :
    sensitiveCalls.all (fun p => documentedSensitive.contains p) = true := by decide +kernel

/-- no goroutine is started by module code -/
theorem no_goroutines : goroutineSpawns = [] := by decide

/-- map-range sites: either provably order-free by the extractor's syntactic test, or reviewed here:
    the site's result is sorted before use / only builds sets / is outside the linting path -/
def reviewedMapRanges : List (String × Nat) :=
  [ ("(*github.com/zmap/zlint/v3/formattedoutput.resultsTable).newRT", 2), ("(*github.com/zmap/zlint/v3/formattedoutput.resultsTable).newRT", 3),
    ("(*github.com/zmap/zlint/v3/lint.linterLookupImpl).Sources", 0), ("(*github.com/zmap/zlint/v3/lint.registryImpl).Sources", 0),
    ("(*github.com/zmap/zlint/v3/lint.registryImpl).defaultConfiguration", 0), ("(*github.com/zmap/zlint/v3/lint.registryImpl).defaultConfiguration", 1),
    ("(*github.com/zmap/zlint/v3/lint.registryImpl).defaultConfiguration", 2),
    ("(*github.com/zmap/zlint/v3/lints/cabf_br.torServiceDescHashInvalid).Execute", 0),   -- collects keys, sorted before use (fix 5daa076)
    ("(*github.com/zmap/zlint/v3/lints/rfc.ecdsaInvalidKU).Execute", 0),                  -- result sorted before formatting
    ("(*github.com/zmap/zlint/v3/lints/rfc.extDuplicateExtension).Execute", 0),           -- sorted before joining (fix ade8042)
    ("github.com/zmap/zlint/v3/lint.AllProfiles", 0),
    ("github.com/zmap/zlint/v3/util.GetKeyUsageStrings", 0),                              -- sorted before return (fix 880d058)
    ("github.com/zmap/zlint/v3/util.init#1", 0) ]

theorem map_ranges_ok : mapRanges.all (fun m => m.autoFree || reviewedMapRanges.contains (m.fn, m.ordinal)) = true := by decide +kernel

/-- non-vacuity of (1): a read-only call exists, a non-read-only one is excluded by the hypothesis -/
example : (⟨fun g o => (g + o, g, o)⟩ : Eff Nat Nat Nat).readOnly ∧ ¬ (⟨fun g o => (g + o, g + 1, o)⟩ : Eff Nat Nat Nat).readOnly := by
  constructor
  · intro g o; rfl
  · intro h; have := h 0 0; simp at this

end Zl.C05
