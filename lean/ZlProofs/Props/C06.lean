/-
  C06 — Severity matches the lint's name.

  The per-lint fact "set of statuses the rule body can return, over every return path"
  is regenerated from the Go source (SSA data-flow, `Generated.registrations.statuses`);
  `severity_generated` checks it against the prefix rule for every registered lint by
  kernel evaluation; `framework_adds_only` / `severity_lifted` lift it through the
  framework to every input of every run.
-/
import ZlProofs.Lemmas.Framework
import ZlProofs.Lemmas.Tables
namespace Zl.C06
open Zl Generated

/-- every registered lint name carries exactly one of the prefixes e_, w_, n_ -/
theorem prefix_exactly_one :
    registrations.all (fun r => prefixClass nameWidth r.key < 3) = true := by decide +kernel

/-- the status analysis resolved every lint (an unresolved one makes this fail, never pass) -/
theorem statuses_resolved :
    registrations.all (fun r => !r.statusUnknown && !r.statuses.isEmpty) = true := by decide +kernel

/-- **Every return path of every lint in the tree** respects the prefix rule — except exactly the
    committed known findings (`knownBad`, from /verif/known_findings.json). -/
theorem severity_generated :
    registrations.all (fun r => r.statuses.all (fun s =>
      allowedStatus (prefixClass nameWidth r.key) s || r.knownBad.contains s)) = true := by decide +kernel

/-- the excused statuses are really returned by those lints (the known-findings list holds nothing stale) -/
theorem known_findings_not_stale :
    registrations.all (fun r => r.knownBad.all (fun s => r.statuses.contains s
      && !allowedStatus (prefixClass nameWidth r.key) s)) = true := by decide +kernel

/-- The framework adds only NA, NE and fatal to what the body returns. -/
theorem framework_adds_only {Obj Cfg : Type} (k : Kind) (sc : Scope) (t : Time) (l : Lint Obj Cfg) (o : Obj) (cfg : Cfg)
    (s : Status) (d : String) (h : (execute k sc t l o cfg).1 = .result s d) :
    s = Status.na ∨ s = Status.ne ∨ s = Status.fatal ∨ ∃ d', l.body o = .res s d' := by
  rcases execute_status_from k sc t l o cfg s d h with hf | hb
  · rcases hf with h | h | h
    · exact Or.inl h
    · exact Or.inr (Or.inl h)
    · exact Or.inr (Or.inr (Or.inl h))
  · exact Or.inr (Or.inr (Or.inr ⟨d, hb⟩))

/-- Lift: if every status the body can return (on any object) is allowed for the lint's prefix class,
    then so is every status any run reports for it, on every input and configuration. -/
theorem severity_lifted {Obj Cfg : Type} (pc : Nat) (hpc : pc < 3) (l : Lint Obj Cfg)
    (S : List Int) (hS : ∀ o s d, l.body o = .res s d → s ∈ S) (hall : S.all (allowedStatus pc) = true)
    (k : Kind) (sc : Scope) (t : Time) (o : Obj) (cfg : Cfg) (s : Status) (d : String)
    (h : (execute k sc t l o cfg).1 = .result s d) : allowedStatus pc s = true := by
  have hfw : ∀ s', (s' = Status.na ∨ s' = Status.ne ∨ s' = Status.fatal) → allowedStatus pc s' = true := by
    intro s' hs'
    have : pc = 0 ∨ pc = 1 ∨ pc = 2 := by omega
    rcases this with rfl | rfl | rfl <;> rcases hs' with rfl | rfl | rfl <;> decide
  rcases framework_adds_only k sc t l o cfg s d h with h1 | h2 | h3 | ⟨d', hb⟩
  · exact hfw s (Or.inl h1)
  · exact hfw s (Or.inr (Or.inl h2))
  · exact hfw s (Or.inr (Or.inr h3))
  · exact List.all_eq_true.mp hall s (hS o s d' hb)

/-- non-vacuity: the table is non-empty and contains lints of all three prefix classes -/
example : registrations.length > 300 ∧ registrations.any (fun r => prefixClass nameWidth r.key == 0)
    ∧ registrations.any (fun r => prefixClass nameWidth r.key == 1) ∧ registrations.any (fun r => prefixClass nameWidth r.key == 2) := by
  decide +kernel

end Zl.C06
