/-
  C07 — A lint's verdict does not depend on which other lints run.

  In the model a lint's `Execute` is a function of (lint, object, configuration) only; that this is
  true of the code — no lint writes the object or package-level state that another lint reads — is
  the regenerated footprint obligation of C05 (`no_object_writes`, `no_global_writes`), which this
  property rests on.
-/
import ZlProofs.Lemmas.RunAll
import ZlProofs.Props.C08
import ZlProofs.Props.C01
namespace Zl.C07
open Zl

/-- uniqueness of a result for a name in a `Good` result set -/
theorem good_unique {Obj Cfg : Type} {ex : Lint Obj Cfg → Exec} {ls : List (Lint Obj Cfg)} {rs : ResultSet}
    (hg : Good ex ls rs) (hnd : (ls.map (·.md.name)).Nodup) (l : Lint Obj Cfg) (hl : l ∈ ls) (r : Result)
    (hr : (l.md.name, r) ∈ rs.results) : ∃ s d, ex l = .result s d ∧ r.status = s ∧ r.details = d ∧ r.md = l.md := by
  obtain ⟨l', hl', s, d, he, hp⟩ := hg.only _ hr
  have hname : l'.md.name = l.md.name := by
    have := congrArg Prod.fst hp; simpa using this.symm
  -- distinct names: l' = l as list elements with equal names
  have hll : l' = l := by
    clear hp he hg hr
    induction ls with
    | nil => cases hl
    | cons a rest ih =>
      simp only [List.map_cons] at hnd
      have hnd' := List.nodup_cons.mp hnd
      rcases List.mem_cons.mp hl with rfl | hl1 <;> rcases List.mem_cons.mp hl' with rfl | hl2
      · rfl
      · exact absurd (List.mem_map.mpr ⟨l', hl2, hname⟩) hnd'.1
      · exact absurd (List.mem_map.mpr ⟨l, hl1, hname.symm⟩) hnd'.1
      · exact ih hnd'.2 hl1 hl2
  subst hll
  have hr' : r = ⟨s, d, l'.md⟩ := by have := congrArg Prod.snd hp; simpa using this
  exact ⟨s, d, he, by rw [hr'], by rw [hr'], by rw [hr']⟩

/-- **Filtered = restriction of full.** If both runs return, every result of the run over the
    sub-list `ls'` (its lints are among `ls`) is, name by name, identical — status, details and
    metadata — to the full run's result; and the filtered run has results for exactly the names of `ls'`. -/
theorem filtered_is_restriction {Obj Cfg : Type} (v : Int) (k : Kind) (sc : Scope) (t : Time)
    (ls ls' : List (Lint Obj Cfg)) (o : Obj) (cfg : Cfg)
    (hnd : (ls.map (·.md.name)).Nodup) (hnd' : (ls'.map (·.md.name)).Nodup) (hsub : ∀ l ∈ ls', l ∈ ls)
    (rs rs' : ResultSet) (h : runAll v k sc t ls o cfg = .returned rs) (h' : runAll v k sc t ls' o cfg = .returned rs') :
    rs'.results.map (·.1) = (ls'.map (·.md.name)).reverse
    ∧ ∀ n r', (n, r') ∈ rs'.results → ∃ r, (n, r) ∈ rs.results ∧ r.status = r'.status ∧ r.details = r'.details ∧ r.md = r'.md := by
  let ex := fun l : Lint Obj Cfg => (execute k sc t l o cfg).1
  have good_of : ∀ (xs : List (Lint Obj Cfg)) (out : ResultSet), (xs.map (·.md.name)).Nodup →
      runAll v k sc t xs o cfg = .returned out → ∃ out0, Good ex xs out0 ∧ out0.results = out.results := by
    intro xs out hx hrun
    simp only [runAll, stepRun_eq_stepWith] at hrun
    cases hf : xs.foldl (stepWith ex) (.returned {}) with
    | panicked m => simp only [ex] at hf; rw [hf] at hrun; cases hrun
    | returned out0 =>
      simp only [ex] at hf; rw [hf] at hrun; cases hrun
      exact ⟨out0, by simpa using fold_good ex xs [] {} (good_init ex) (by simpa using hx) out0 hf, rfl⟩
  obtain ⟨g, hg, hge⟩ := good_of ls rs hnd h
  obtain ⟨g', hg', hge'⟩ := good_of ls' rs' hnd' h'
  refine ⟨by rw [← hge']; exact hg'.keys, ?_⟩
  intro n r' hr'
  rw [← hge'] at hr'
  obtain ⟨l, hl, s, d, he, hp⟩ := hg'.only _ hr'
  have hn : n = l.md.name := by have := congrArg Prod.fst hp; simpa using this
  have hr'' : r' = ⟨s, d, l.md⟩ := by have := congrArg Prod.snd hp; simpa using this
  obtain ⟨s2, d2, he2, hmem⟩ := hg.entries l (hsub l hl)
  have : s2 = s ∧ d2 = d := by rw [he] at he2; cases he2; exact ⟨rfl, rfl⟩
  refine ⟨⟨s2, d2, l.md⟩, by rw [← hge, hn]; exact hmem, ?_, ?_, ?_⟩ <;> simp [hr'', this.1, this.2]

/-- **Flags are monotone**: every presence flag raised by the filtered run is raised by the full run. -/
theorem flags_monotone {Obj Cfg : Type} (v : Int) (k : Kind) (sc : Scope) (t : Time)
    (ls ls' : List (Lint Obj Cfg)) (o : Obj) (cfg : Cfg)
    (hnd : (ls.map (·.md.name)).Nodup) (hnd' : (ls'.map (·.md.name)).Nodup) (hsub : ∀ l ∈ ls', l ∈ ls)
    (rs rs' : ResultSet) (h : runAll v k sc t ls o cfg = .returned rs) (h' : runAll v k sc t ls' o cfg = .returned rs') :
    (rs'.notices = true → rs.notices = true) ∧ (rs'.warnings = true → rs.warnings = true)
    ∧ (rs'.errors = true → rs.errors = true) ∧ (rs'.fatals = true → rs.fatals = true) := by
  obtain ⟨_, hres⟩ := filtered_is_restriction v k sc t ls ls' o cfg hnd hnd' hsub rs rs' h h'
  obtain ⟨f, _⟩ := C01.flags_iff v k sc t ls o cfg hnd rs h
  obtain ⟨f', _⟩ := C01.flags_iff v k sc t ls' o cfg hnd' rs' h'
  have lift : ∀ c : Status, (∃ p ∈ rs'.results, p.2.status = c) → ∃ p ∈ rs.results, p.2.status = c := by
    rintro c ⟨p, hp, hc⟩
    obtain ⟨r, hr, hs, _, _⟩ := hres p.1 p.2 hp
    exact ⟨(p.1, r), hr, by rw [← hc]; exact hs⟩
  exact ⟨fun x => f.notices.mpr (lift _ (f'.notices.mp x)), fun x => f.warnings.mpr (lift _ (f'.warnings.mp x)),
         fun x => f.errors.mpr (lift _ (f'.errors.mp x)), fun x => f.fatals.mpr (lift _ (f'.fatals.mp x))⟩

/-- `Filter` hands the run the very same lint values and the same configuration: the lints of the
    filtered registry are among those of the source registry, kind by kind (from C08's `filter_spec`). -/
theorem filter_shares_lints {α Cfg : Type} (r r' : Registry α Cfg) (hr : RInv r) (o : FilterOptions)
    (h : filter r o = .ok r') : r'.cfg = r.cfg ∧ ∀ k e, e ∈ (r'.lookupOf k).lints → e ∈ (r.lookupOf k).lints := by
  cases he : o.empty with
  | true =>
    rw [C08.filter_empty_id r o he] at h
    cases h
    exact ⟨rfl, fun _ _ h => h⟩
  | false =>
    obtain ⟨_, hc, hs⟩ := C08.filter_spec r r' hr o he h
    exact ⟨hc, fun k e hm => ((hs k e).mp hm).1⟩

end Zl.C07
