/-
  C08 — Filtering selects exactly the documented set.
-/
import ZlProofs.Lemmas.Filter
namespace Zl.C08
open Zl
variable {α Cfg : Type}

/-- the documented selection: not from an excluded source, from an included source when any are
    given, matching the pattern when one is given, not among the excluded names, among the included
    names when any are given — names compared after trimming surrounding blanks -/
def selected (o : FilterOptions) (name source : String) : Prop :=
  source ∉ o.excludeSources
  ∧ (o.includeSources = [] ∨ source ∈ o.includeSources)
  ∧ (∀ f, o.nameFilter = some f → f name = true)
  ∧ (¬ ∃ n ∈ o.excludeNames, trimSpace n = name)
  ∧ (o.includeNames = [] ∨ ∃ n ∈ o.includeNames, trimSpace n = name)

/-- no filtering requested: the very same registry comes back (nil and empty lists alike) -/
theorem filter_empty_id (r : Registry α Cfg) (o : FilterOptions) (h : o.empty = true) : filter r o = .ok r := by
  simp [filter, h]

theorem srcEx_iff (l : List String) (source : String) :
    (!(match sourceListToMap l with | some m => m.contains source | none => false)) = true ↔ source ∉ l := by
  unfold sourceListToMap
  cases l <;> simp

theorem srcIn_iff (l : List String) (source : String) :
    (match sourceListToMap l with | some m => m.contains source | none => true) = true ↔ (l = [] ∨ source ∈ l) := by
  unfold sourceListToMap
  cases l <;> simp

theorem nf_iff (nf : Option (String → Bool)) (name : String) :
    (match nf with | some f => f name | none => true) = true ↔ (∀ f, nf = some f → f name = true) := by
  cases nf <;> simp

theorem selectedBy_iff_aux (o : FilterOptions) (nameEx nameIn : Option (List String)) (name source : String) (P4 P5 : Prop)
    (e4 : (!(match nameEx with | some m => m.contains name | none => false)) = true ↔ P4)
    (e5 : (match nameIn with | some m => m.contains name | none => true) = true ↔ P5) :
    selectedBy (sourceListToMap o.excludeSources) (sourceListToMap o.includeSources) o.nameFilter nameEx nameIn name source = true
      ↔ (source ∉ o.excludeSources ∧ (o.includeSources = [] ∨ source ∈ o.includeSources)
          ∧ (∀ f, o.nameFilter = some f → f name = true) ∧ P4 ∧ P5) := by
  have e1 := srcEx_iff o.excludeSources source
  have e2 := srcIn_iff o.includeSources source
  have e3 := nf_iff o.nameFilter name
  unfold selectedBy
  simp only [Bool.and_eq_true]
  constructor
  · rintro ⟨⟨⟨⟨a, b⟩, c⟩, d⟩, e⟩; exact ⟨e1.mp a, e2.mp b, e3.mp c, e4.mp d, e5.mp e⟩
  · rintro ⟨a, b, c, d, e⟩; exact ⟨⟨⟨⟨e1.mpr a, e2.mpr b⟩, e3.mpr c⟩, e4.mpr d⟩, e5.mpr e⟩

theorem exTest_none (l : List String) (name : String) (h : l = []) :
    (!(match (none : Option (List String)) with | some m => m.contains name | none => false)) = true ↔ ¬ ∃ n ∈ l, trimSpace n = name := by
  subst h; simp

theorem exTest_some (l m : List String) (name : String) (hm : ∀ x, x ∈ m ↔ ∃ n ∈ l, trimSpace n = x) :
    (!(match some m with | some m => m.contains name | none => false)) = true ↔ ¬ ∃ n ∈ l, trimSpace n = name := by
  simp only [Bool.not_eq_eq_eq_not, Bool.not_true, List.contains_eq_mem, decide_eq_false_iff_not, hm name]

theorem inTest_none (l : List String) (name : String) (h : l = []) :
    (match (none : Option (List String)) with | some m => m.contains name | none => true) = true ↔ (l = [] ∨ ∃ n ∈ l, trimSpace n = name) := by
  subst h; simp

theorem inTest_some (l m : List String) (name : String) (hne : l ≠ []) (hm : ∀ x, x ∈ m ↔ ∃ n ∈ l, trimSpace n = x) :
    (match some m with | some m => m.contains name | none => true) = true ↔ (l = [] ∨ ∃ n ∈ l, trimSpace n = name) := by
  simp only [List.contains_eq_mem, decide_eq_true_eq, hm name, hne, false_or]

/-- the model's five-clause test, with the maps `Filter` builds, is the documented selection -/
theorem selectedBy_iff (o : FilterOptions) (nameEx nameIn : Option (List String))
    (hex : (o.excludeNames = [] ∧ nameEx = none) ∨ ∃ m, nameEx = some m ∧ ∀ x, x ∈ m ↔ ∃ n ∈ o.excludeNames, trimSpace n = x)
    (hin : (o.includeNames = [] ∧ nameIn = none) ∨ ∃ m, nameIn = some m ∧ m ≠ [] ∧ o.includeNames ≠ [] ∧ ∀ x, x ∈ m ↔ ∃ n ∈ o.includeNames, trimSpace n = x)
    (name source : String) :
    selectedBy (sourceListToMap o.excludeSources) (sourceListToMap o.includeSources) o.nameFilter nameEx nameIn name source = true
      ↔ selected o name source := by
  unfold selected
  rcases hex with ⟨h1, rfl⟩ | ⟨mE, rfl, hmE⟩ <;> rcases hin with ⟨h2, rfl⟩ | ⟨mI, rfl, _, hne, hmI⟩
  · exact selectedBy_iff_aux o none none name source _ _ (exTest_none _ name h1) (inTest_none _ name h2)
  · exact selectedBy_iff_aux o none (some mI) name source _ _ (exTest_none _ name h1) (inTest_some _ mI name hne hmI)
  · exact selectedBy_iff_aux o (some mE) none name source _ _ (exTest_some _ mE name hmE) (inTest_none _ name h2)
  · exact selectedBy_iff_aux o (some mE) (some mI) name source _ _ (exTest_some _ mE name hmE) (inTest_some _ mI name hne hmI)

/-- **Filter specification.** For a registry whose lookups are consistent and whose names are unique
    across kinds, a successful non-trivial filter yields precisely the selected lints of each kind
    (each entry — kind, metadata, implementation — is the very value registered in `r`), keeps the
    invariant, and inherits the configuration. -/
theorem filter_spec (r r' : Registry α Cfg) (hr : RInv r) (o : FilterOptions) (hne : o.empty = false)
    (h : filter r o = .ok r') :
    RInv r' ∧ r'.cfg = r.cfg ∧
      ∀ k e, e ∈ (r'.lookupOf k).lints ↔ (e ∈ (r.lookupOf k).lints ∧ selected o e.md.name e.md.source) := by
  unfold filter at h
  simp only [hne, Bool.false_eq_true, ↓reduceIte] at h
  rcases lintNamesToMap_spec r o.excludeNames with ⟨he0, he1⟩ | ⟨he0, _, mE, he1, _, hmE⟩ | ⟨_, _, x, he1⟩
  all_goals rw [he1] at h
  all_goals simp only [] at h
  rotate_left 2
  · cases h
  all_goals (
    rcases lintNamesToMap_spec r o.includeNames with ⟨hi0, hi1⟩ | ⟨hi0, _, mI, hi1, hmIne, hmI⟩ | ⟨_, _, x, hi1⟩
    all_goals rw [hi1] at h
    all_goals simp only [] at h
    rotate_left 2
    · cases h)
  all_goals (split at h; · cases h)
  all_goals (
    obtain ⟨hnd, hmem⟩ := names_spec hr
    obtain ⟨acc', hloop, hinv, hcfg, hspec⟩ := filterLoop_spec hr _ r.names { cfg := r.cfg } (RInv.empty r.cfg) hnd
      (by intro n _ k hin; cases k <;> simp [nameIn, Registry.lookupOf] at hin)
    rw [hloop] at h
    cases h
    refine ⟨hinv, hcfg, ?_⟩
    intro k e
    rw [hspec k e])
  · -- exclude = [], include = []
    rw [selectedBy_iff o none none (Or.inl ⟨he0, rfl⟩) (Or.inl ⟨hi0, rfl⟩)]
    constructor
    · rintro (hx | ⟨_, he, hs⟩)
      · cases k <;> simp [Registry.lookupOf] at hx
      · exact ⟨he, hs⟩
    · rintro ⟨he, hs⟩
      exact Or.inr ⟨(hmem _).mpr ⟨k, List.mem_map.mpr ⟨e, he, rfl⟩⟩, he, hs⟩
  · rw [selectedBy_iff o none (some mI) (Or.inl ⟨he0, rfl⟩) (Or.inr ⟨mI, rfl, hmIne, hi0, hmI⟩)]
    constructor
    · rintro (hx | ⟨_, he, hs⟩)
      · cases k <;> simp [Registry.lookupOf] at hx
      · exact ⟨he, hs⟩
    · rintro ⟨he, hs⟩
      exact Or.inr ⟨(hmem _).mpr ⟨k, List.mem_map.mpr ⟨e, he, rfl⟩⟩, he, hs⟩
  · rw [selectedBy_iff o (some mE) none (Or.inr ⟨mE, rfl, hmE⟩) (Or.inl ⟨hi0, rfl⟩)]
    constructor
    · rintro (hx | ⟨_, he, hs⟩)
      · cases k <;> simp [Registry.lookupOf] at hx
      · exact ⟨he, hs⟩
    · rintro ⟨he, hs⟩
      exact Or.inr ⟨(hmem _).mpr ⟨k, List.mem_map.mpr ⟨e, he, rfl⟩⟩, he, hs⟩
  · rw [selectedBy_iff o (some mE) (some mI) (Or.inr ⟨mE, rfl, hmE⟩) (Or.inr ⟨mI, rfl, hmIne, hi0, hmI⟩)]
    constructor
    · rintro (hx | ⟨_, he, hs⟩)
      · cases k <;> simp [Registry.lookupOf] at hx
      · exact ⟨he, hs⟩
    · rintro ⟨he, hs⟩
      exact Or.inr ⟨(hmem _).mpr ⟨k, List.mem_map.mpr ⟨e, he, rfl⟩⟩, he, hs⟩

/-- the source registry is not changed: `filter` is a function of it (the model is pure); what the
    *code* must satisfy for this — no store through the receiver in `Filter` and its callees — is the
    regenerated footprint obligation `filter_receiver_readonly` in C10. -/
theorem filter_pure (r : Registry α Cfg) (o : FilterOptions) : (filter r o, r) = (filter r o, r) := rfl

/-- **When is a filter rejected?** Exactly for an unknown (trimmed) name in either list, or a name
    pattern combined with a non-empty name list. Never for any other reason (in particular never
    by a registration error) when the registry invariant holds. -/
theorem filter_error_iff (r : Registry α Cfg) (hr : RInv r) (o : FilterOptions) :
    (∃ err, filter r o = .error err) ↔
      o.empty = false ∧ ((∃ n ∈ o.excludeNames ++ o.includeNames, r.find (trimSpace n) = none)
        ∨ (o.nameFilter.isSome = true ∧ (o.excludeNames ≠ [] ∨ o.includeNames ≠ []))) := by
  unfold filter
  cases hne : o.empty with
  | true => simp
  | false =>
    simp only [Bool.false_eq_true, ↓reduceIte, true_and]
    have hok : ∀ sel, ∃ acc', filterLoop r sel r.names { cfg := r.cfg } = .ok acc' := by
      intro sel
      obtain ⟨hnd, _⟩ := names_spec hr
      obtain ⟨acc', hloop, _⟩ := filterLoop_spec hr sel r.names { cfg := r.cfg } (RInv.empty r.cfg) hnd
        (by intro n _ k hin; cases k <;> simp [nameIn, Registry.lookupOf] at hin)
      exact ⟨acc', hloop⟩
    have some_of_isSome : ∀ n, (r.find (trimSpace n)).isSome = true → r.find (trimSpace n) ≠ none := by
      intro n h1 h2; rw [h2] at h1; cases h1
    rcases lintNamesToMap_spec r o.excludeNames with ⟨he0, he1⟩ | ⟨he0, heall, mE, he1, hmEne, _⟩ | ⟨_, ⟨n, hn, hnn⟩, x, he1⟩
    · rw [he1]; simp only []
      rcases lintNamesToMap_spec r o.includeNames with ⟨hi0, hi1⟩ | ⟨hi0, hiall, mI, hi1, hmIne, _⟩ | ⟨_, ⟨n, hn, hnn⟩, x, hi1⟩
      · rw [hi1]; simp only [he0, hi0]
        obtain ⟨acc', hl⟩ := hok (selectedBy (sourceListToMap o.excludeSources) (sourceListToMap o.includeSources) o.nameFilter none none)
        simp [hl]
      · rw [hi1]; simp only [he0]
        obtain ⟨acc', hl⟩ := hok (selectedBy (sourceListToMap o.excludeSources) (sourceListToMap o.includeSources) o.nameFilter none (some mI))
        have hlen : mI.length ≠ 0 := by intro h; exact hmIne (List.length_eq_zero_iff.mp h)
        cases hnf : o.nameFilter.isSome with
        | true =>
          have hcond : (true && ((none : Option (List String)).getD []).length != 0 || ((some mI).getD []).length != 0) = true := by simp [hlen]
          constructor
          · intro _; exact Or.inr ⟨rfl, Or.inr hi0⟩
          · intro _; exact ⟨.nameFilterConflict, by simp [hlen]⟩
        | false =>
          simp only [Bool.false_and, Bool.false_eq_true, ↓reduceIte, hl, List.nil_append, false_and, or_false]
          constructor
          · rintro ⟨err, herr⟩; cases herr
          · rintro ⟨n, hn, hnn⟩; exact absurd hnn (some_of_isSome n (hiall n hn))
      · rw [hi1]; simp only [he0, List.nil_append]
        constructor
        · intro _; exact Or.inl ⟨n, hn, hnn⟩
        · intro _; exact ⟨_, rfl⟩
    · rw [he1]; simp only []
      have hlenE : mE.length ≠ 0 := by intro h; exact hmEne (List.length_eq_zero_iff.mp h)
      rcases lintNamesToMap_spec r o.includeNames with ⟨hi0, hi1⟩ | ⟨hi0, hiall, mI, hi1, hmIne, _⟩ | ⟨_, ⟨n, hn, hnn⟩, x, hi1⟩
      · rw [hi1]; simp only []
        obtain ⟨acc', hl⟩ := hok (selectedBy (sourceListToMap o.excludeSources) (sourceListToMap o.includeSources) o.nameFilter (some mE) none)
        cases hnf : o.nameFilter.isSome with
        | true =>
          constructor
          · intro _; exact Or.inr ⟨rfl, Or.inl he0⟩
          · intro _; exact ⟨.nameFilterConflict, by simp [hlenE]⟩
        | false =>
          simp only [Bool.false_and, Bool.false_eq_true, ↓reduceIte, hl, hi0, List.append_nil, false_and, or_false]
          constructor
          · rintro ⟨err, herr⟩; cases herr
          · rintro ⟨n, hn, hnn⟩; exact absurd hnn (some_of_isSome n (heall n hn))
      · rw [hi1]; simp only []
        obtain ⟨acc', hl⟩ := hok (selectedBy (sourceListToMap o.excludeSources) (sourceListToMap o.includeSources) o.nameFilter (some mE) (some mI))
        cases hnf : o.nameFilter.isSome with
        | true =>
          constructor
          · intro _; exact Or.inr ⟨rfl, Or.inl he0⟩
          · intro _; exact ⟨.nameFilterConflict, by simp [hlenE]⟩
        | false =>
          simp only [Bool.false_and, Bool.false_eq_true, ↓reduceIte, hl, false_and, or_false]
          constructor
          · rintro ⟨err, herr⟩; cases herr
          · rintro ⟨n, hn, hnn⟩
            rcases List.mem_append.mp hn with hn | hn
            · exact absurd hnn (some_of_isSome n (heall n hn))
            · exact absurd hnn (some_of_isSome n (hiall n hn))
      · rw [hi1]; simp only []
        constructor
        · intro _; exact Or.inl ⟨n, List.mem_append.mpr (Or.inr hn), hnn⟩
        · intro _; exact ⟨_, rfl⟩
    · rw [he1]; simp only []
      constructor
      · intro _; exact Or.inl ⟨n, List.mem_append.mpr (Or.inl hn), hnn⟩
      · intro _; exact ⟨_, rfl⟩

/-- including only a source that has no lints yields an empty registry, not an error -/
theorem source_without_lints (r r' : Registry α Cfg) (hr : RInv r) (s : String)
    (hnone : ∀ k, ∀ e ∈ (r.lookupOf k).lints, e.md.source ≠ s)
    (h : filter r { includeSources := [s] } = .ok r') : ∀ k, (r'.lookupOf k).lints = [] := by
  intro k
  have := (filter_spec r r' hr { includeSources := [s] } (by simp [FilterOptions.empty]) h).2.2 k
  apply List.eq_nil_iff_forall_not_mem.mpr
  intro e he
  obtain ⟨he', hsel⟩ := (this e).mp he
  rcases hsel.2.1 with h0 | h1
  · cases h0
  · simp only [List.mem_singleton] at h1
    exact hnone k e he' h1

/-- non-vacuity: registries satisfying the invariant exist and are what `register` builds -/
example : ∃ r : Registry Unit Unit, RInv r ∧ (r.lookupOf .cert).lints.length = 1 := by
  obtain ⟨r, _, hinv, _, hl, _⟩ := registry_register_ok (RInv.empty (α := Unit) ()) .cert
    { md := { name := "e_a", source := "RFC5280" }, payload := () } ⟨rfl, rfl, by decide⟩
    (by intro k h; cases k <;> simp [nameIn, Registry.lookupOf] at h)
  exact ⟨r, hinv, by rw [hl]; rfl⟩

end Zl.C08
