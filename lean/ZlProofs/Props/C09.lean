/-
  C09 — Verdicts do not depend on the signature value.

  (1) Congruence: if every lint's Execute gives the same outcome on two objects, the two runs give the
  same result set; a lint whose outcome depends only on a set of fields R gives the same outcome on
  objects that agree on R. (2) For the real code, which lints read the signature bits, the whole-
  certificate bytes, fingerprints or the self-signed flag is regenerated from the source and decided
  against the specification's lists.

  Partial: the parser facts (A-SELF: SelfSigned implies issuer bytes = subject bytes; A-PARSE: replacing
  the signature changes no other parsed field except Raw / fingerprints) and A-ASN1 (encoding/asn1
  ignores bit-string contents when e_cert_ext_invalid_der re-parses the certificate) are validated by the
  signature-replacement search, not proved.
-/
import ZlProofs.Lemmas.Der
import ZlProofs.Lemmas.RunAll
import ZlProofs.Props.C05
namespace Zl.C09
open Zl Generated

/-- a lint's outcome depends only on the fields in `R` of an object seen as a field valuation -/
def DependsOnly {F V Cfg : Type} (R : List F) (run : (F → V) → Cfg → Exec) : Prop :=
  ∀ o o' cfg, (∀ f ∈ R, o f = o' f) → run o cfg = run o' cfg

/-- **Congruence of the run**: equal per-lint outcomes give equal result sets (status, details,
    metadata, flags) — or the same panic. -/
theorem runAll_congr {Obj Cfg : Type} (v : Int) (k : Kind) (sc sc' : Scope) (t t' : Time) (ls : List (Lint Obj Cfg))
    (o o' : Obj) (cfg : Cfg) (h : ∀ l ∈ ls, (execute k sc t l o cfg).1 = (execute k sc' t' l o' cfg).1) :
    runAll v k sc t ls o cfg = runAll v k sc' t' ls o' cfg := by
  unfold runAll
  have key : ∀ (acc : Run), ls.foldl (stepRun k sc t o cfg) acc = ls.foldl (stepRun k sc' t' o' cfg) acc := by
    induction ls with
    | nil => intro acc; rfl
    | cons l rest ih =>
      intro acc
      simp only [List.foldl]
      have hl := h l List.mem_cons_self
      have hstep : stepRun k sc t o cfg acc l = stepRun k sc' t' o' cfg acc l := by
        cases acc with
        | panicked m => rfl
        | returned rs => simp only [stepRun, hl]
      rw [hstep]
      exact ih (fun x hx => h x (List.mem_cons_of_mem _ hx)) _
  rw [key]

/-- **Signature independence**: if every lint depends only on fields outside `sigFields` (the signature
    bits and what is derived from the whole certificate), then objects that agree everywhere else
    get the same outcome from every lint. -/
theorem sig_independent {F V Cfg : Type} [DecidableEq F] (sigFields : List F)
    (lints : List (List F × ((F → V) → Cfg → Exec)))
    (hdep : ∀ p ∈ lints, DependsOnly p.1 p.2) (hdisj : ∀ p ∈ lints, ∀ f ∈ p.1, f ∉ sigFields)
    (o o' : F → V) (hagree : ∀ f, f ∉ sigFields → o f = o' f) (cfg : Cfg) :
    ∀ p ∈ lints, p.2 o cfg = p.2 o' cfg := by
  intro p hp
  exact hdep p hp o o' cfg (fun f hf => hagree f (hdisj p hp f hf))

/-! ### regenerated read footprints -/

def fieldIdx (name : String) : Option Nat := (fieldNames.zipIdx.find? (fun p => p.1 == name)).map (·.2)

def readers (name : String) : List String :=
  match fieldIdx name with
  | none => []
  | some i => (registrations.filter (fun r => r.reads.contains i || r.objMethods.contains i)).map (·.name)

/-- the signature bits are read by exactly one lint, and only through `len` -/
theorem signature_readers : readers "Certificate.Signature" = ["e_mp_ecdsa_signature_encoding_correct"]
    ∧ registrations.all (fun r => !r.sigContent) = true ∧ sigContentFns = [] := by decide +kernel

/-- the whole-certificate bytes are read by exactly the two reviewed lints (one walks to the outer
    algorithm identifier with cryptobyte, one re-parses with encoding/asn1) -/
theorem raw_readers : readers "Certificate.Raw" = ["e_cert_ext_invalid_der", "e_cert_sig_alg_not_match_tbs_sig_alg"] := by decide +kernel

/-- the framework itself (the execute loops, the wrappers, the output formatting) reads of the linted object exactly
    the dating fields and the policy identifiers of the scope gate — nothing derived from the signature (no
    fingerprint stamped onto results, no raw bytes) -/
theorem framework_reads :
    frameworkObjReads = ["Certificate.NotBefore", "Certificate.PolicyIdentifiers", "Response.NextUpdate", "RevocationList.ThisUpdate"] := by decide

/-- the lints that read signature bytes or whole-object bytes were reviewed **in exactly this text**: the hash of
    every lint-package function they reach is pinned, so an edit to one of them (say, a byte search over `c.Raw`
    that is no longer anchored to the to-be-signed part) re-opens the review instead of passing silently.
    Reviewed: `e_cert_sig_alg_not_match_tbs_sig_alg` — modelled, `raw_walk_ignores_signature`;
    `e_cert_ext_invalid_der` — unmarshals `c.Raw` with encoding/asn1 and looks at `TbsCertificate.Extensions` only (A-ASN1);
    `e_mp_ecdsa_signature_encoding_correct` — `len(c.Signature)` only (`signature_readers`);
    `e_crl_revoked_certificates_field_must_be_empty` walks `c.Raw` with cryptobyte down to `revokedCertificates` inside
    the TBSCertList and never reaches the signature; `e_crl_empty_revoked_certificates` unmarshals `c.Raw` with
    encoding/asn1 and looks at `TbsCertList.RevokedCertificates` only (A-ASN1). (C09 quantifies over certificates;
    the CRL lints are pinned for the same reason.) -/
theorem sensitive_readers_reviewed : sensitiveReaderBodies =
    [("e_cert_ext_invalid_der", 15379507351867889202), ("e_cert_sig_alg_not_match_tbs_sig_alg", 8933058133484231263),
     ("e_crl_empty_revoked_certificates", 4127868731037560474), ("e_crl_revoked_certificates_field_must_be_empty", 13303964325982800165),
     ("e_mp_ecdsa_signature_encoding_correct", 7808569742351512472)] := by decide +kernel

/-- nothing else derived from the signature or the whole certificate is read by any lint: no
    fingerprints, no validation state, no signature-checking methods -/
def forbiddenField (f : String) : Bool :=
  C05.startsWithK f "Certificate.Fingerprint" || C05.startsWithK f "Certificate.SPKISubjectFingerprint"
  || f == "Certificate.ValidationLevel" || f == "Certificate.validSignature"
  || C05.startsWithK f "Certificate.Check" || C05.startsWithK f "Certificate.Verify"

theorem no_signature_derived_reads : fieldNames.all (fun f => !forbiddenField f) = true := by decide +kernel

/-- object methods called by lints: only the two memoised name parsers -/
theorem object_methods : (fieldNames.filter (fun f => f == "Certificate.GetParsedDNSNames" || f == "Certificate.GetParsedSubjectCommonName"
    || !(registrations.all (fun r => !(match fieldIdx f with | some i => r.objMethods.contains i | none => false))))) =
    ["Certificate.GetParsedDNSNames", "Certificate.GetParsedSubjectCommonName"] := by decide +kernel

/-- no code on the linting path calls a signature-verifying function of the parser library -/
theorem no_signature_checks :
    lintPathCalls.all (fun c => !(C05.startsWithK c.2.2.2 "(*github.com/zmap/zcrypto/x509.Certificate).Check"
      || C05.startsWithK c.2.2.2 "(*github.com/zmap/zcrypto/x509.Certificate).Verify")) = true := by decide +kernel

/-- non-vacuity of `sig_independent`: a lint reading field 0 only, objects differing on field 1 -/
example : DependsOnly [0] (fun (o : Nat → Nat) (_ : Unit) => Exec.result (o 0) "") := by
  intro o o' _ h; simp [h 0 (by simp)]


/-! ## The one lint that walks `c.Raw` with cryptobyte is blind to the signature element

  `e_cert_sig_alg_not_match_tbs_sig_alg` is modelled (ZlModel/Der.lean: cryptobyte's DER element reader and
  the lint's walk; tied by the `der` correspondence). For a certificate — SEQUENCE { tbsCertificate,
  signatureAlgorithm, signatureValue } — its verdict is `compareAlg tbs alg`, whatever the third element is. -/
section RawWalk
open Zl.Der

theorem raw_walk_ignores_signature (tbs alg sig sig' : Bytes)
    (h1 : tbs.length + 6 < 4294967296) (h2 : alg.length + 6 < 4294967296)
    (h3 : (tlv tagSeq tbs ++ (tlv tagSeq alg ++ sig)).length + 6 < 4294967296)
    (h3' : (tlv tagSeq tbs ++ (tlv tagSeq alg ++ sig')).length + 6 < 4294967296) :
    walk (tlv tagSeq (tlv tagSeq tbs ++ (tlv tagSeq alg ++ sig))) = walk (tlv tagSeq (tlv tagSeq tbs ++ (tlv tagSeq alg ++ sig'))) :=
  sigAlgWalk_blind tbs alg sig sig' h1 h2 h3 h3'

/-- the reader accepts exactly what the encoder writes: element boundaries are where the header says -/
theorem der_reader_inverts_encoder (t : Nat) (c rest : Bytes) (ht : t % 32 ≠ 31) (hc : c.length + 6 < 4294967296) :
    readAny (tlv t c ++ rest) = some (t, c, rest) := readAny_tlv t c rest ht hc

/-- not vacuous: a matching and a mismatching algorithm, both with some signature bytes behind them -/
example : walk (tlv tagSeq (tlv tagSeq (tlv tagInt [1] ++ tlv tagSeq [6, 1, 42]) ++ (tlv tagSeq [6, 1, 42] ++ [3, 2, 0, 255]))) = .pass := by decide
example : walk (tlv tagSeq (tlv tagSeq (tlv tagInt [1] ++ tlv tagSeq [6, 1, 42]) ++ (tlv tagSeq [6, 1, 43] ++ [3, 2, 0, 255]))) = .error := by decide
/-- non-minimal and indefinite lengths are refused, as cryptobyte does -/
example : readAny [0x30, 0x81, 0x01, 0x00] = none ∧ readAny [0x30, 0x80, 0x00, 0x00] = none ∧ readAny [0x1f, 0x00] = none
    ∧ readAny [0x30, 0x82, 0x00, 0x80] = none := by decide

end RawWalk

end Zl.C09
