/-
  C10 — Concurrent linting is safe and equals sequential linting.

  (1) For threads whose steps leave the shared world unchanged, every interleaving gives each thread
  exactly the states (hence outputs) of running its own program alone. (2) That the code's steps are
  of this kind is the regenerated footprint: no store to package-level state, no store through the
  receiver in the registry's read operations, no store through a linted object, read-lock discipline.

  Partial: data races are a property of the Go memory model and of third-party code (regexp,
  publicsuffix, idna, go-toml tree reads); the Lean model cannot exhibit them. The race detector run
  (search) observes the real scheduler; no race-freedom is claimed at proof level.
-/
import ZlModel.World
import ZlProofs.Props.C05
namespace Zl.C10
open Zl Generated

theorem stepThread_world {G Obj Out : Type} (g : G) (t : Thread G Obj Out) (h : ∀ c ∈ t.prog, c.readOnly) :
    (stepThread g t).1 = g := by
  unfold stepThread
  cases hp : t.prog with
  | nil => rfl
  | cons c rest =>
    simp only []
    have := h c (by rw [hp]; exact List.mem_cons_self) g t.obj
    rw [this]

theorem stepThread_prog_subset {G Obj Out : Type} (g : G) (t : Thread G Obj Out) :
    ∀ c ∈ (stepThread g t).2.prog, c ∈ t.prog := by
  unfold stepThread
  cases hp : t.prog with
  | nil => intro c hc; simp [hp] at hc
  | cons c0 rest => intro c hc; simp only [] at hc; exact List.mem_cons_of_mem _ hc

theorem runAlone_succ {G Obj Out : Type} (n : Nat) (g : G) (t : Thread G Obj Out) (h : ∀ c ∈ t.prog, c.readOnly) :
    (runAlone (n + 1) g t).2 = (stepThread g (runAlone n g t).2).2 ∧ (runAlone n g t).1 = g
    ∧ ∀ c ∈ (runAlone n g t).2.prog, c ∈ t.prog := by
  induction n generalizing t with
  | zero => simp [runAlone]
  | succ n ih =>
    have hw := stepThread_world g t h
    have hsub := stepThread_prog_subset g t
    have h' : ∀ c ∈ (stepThread g t).2.prog, c.readOnly := fun c hc => h c (hsub c hc)
    obtain ⟨a, b, c⟩ := ih (stepThread g t).2 h'
    simp only [runAlone] at a b c ⊢
    cases hs : stepThread g t with
    | mk g1 t1 =>
      have hg1 : g1 = g := by have := hw; rw [hs] at this; exact this
      subst hg1
      simp only [hs] at a b c hsub ⊢
      exact ⟨a, b, fun x hx => hsub x (c x hx)⟩

theorem getElem?_updateAt {α : Type} (l : List α) (i j : Nat) (a : α) :
    (updateAt l i a)[j]? = if j = i ∧ i < l.length then some a else l[j]? := by
  induction l generalizing i j with
  | nil => simp [updateAt]
  | cons x xs ih =>
    cases i with
    | zero => cases j <;> simp [updateAt]
    | succ i =>
      cases j with
      | zero => simp [updateAt]
      | succ j => simp [updateAt, ih]

/-- **Every interleaving equals the sequential runs.** If every call of every thread is read-only on
    the shared world, then after any schedule the world is unchanged and each thread is in exactly the
    state — local object, remaining program, outputs so far — it reaches by running alone for some number of steps. -/
theorem interleaving_eq_sequential {G Obj Out : Type} (g : G) (ts0 : List (Thread G Obj Out))
    (hro : ∀ t ∈ ts0, ∀ c ∈ t.prog, c.readOnly) (sched : List Nat) :
    (runSchedule sched g ts0).1 = g ∧
    ∀ (i : Nat) (t0 : Thread G Obj Out), ts0[i]? = some t0 → ∃ n, (runSchedule sched g ts0).2[i]? = some (runAlone n g t0).2 := by
  -- generalise: the current thread list is, thread by thread, a solo run of the initial one
  suffices H : ∀ (sched : List Nat) (ts : List (Thread G Obj Out)),
      (∀ (i : Nat) (t0 : Thread G Obj Out), ts0[i]? = some t0 → ∃ n, ts[i]? = some (runAlone n g t0).2) → ts.length = ts0.length →
      (runSchedule sched g ts).1 = g ∧ ∀ (i : Nat) (t0 : Thread G Obj Out), ts0[i]? = some t0 → ∃ n, (runSchedule sched g ts).2[i]? = some (runAlone n g t0).2 by
    exact H sched ts0 (fun i t0 h => ⟨0, by simpa [runAlone] using h⟩) rfl
  intro sched
  induction sched with
  | nil => intro ts hinv _; exact ⟨rfl, hinv⟩
  | cons i rest ih =>
    intro ts hinv hlen
    simp only [runSchedule]
    cases hti : ts[i]? with
    | none => exact ih ts hinv hlen
    | some t =>
      simp only []
      -- thread i of ts0 exists and t is one of its solo states
      have hi : i < ts0.length := by
        have : i < ts.length := by
          rcases Nat.lt_or_ge i ts.length with h | h
          · exact h
          · rw [List.getElem?_eq_none h] at hti; cases hti
        omega
      obtain ⟨n, hn⟩ := hinv i ts0[i] (by simp [hi])
      have ht : t = (runAlone n g ts0[i]).2 := by rw [hti] at hn; cases hn; rfl
      have hro0 : ∀ c ∈ ts0[i].prog, c.readOnly := hro ts0[i] (List.getElem_mem hi)
      obtain ⟨hsucc, _, hsubp⟩ := runAlone_succ n g ts0[i] hro0
      have hrot : ∀ c ∈ t.prog, c.readOnly := by rw [ht]; exact fun c hc => hro0 c (hsubp c hc)
      have hw : (stepThread g t).1 = g := stepThread_world g t hrot
      cases hs : stepThread g t with
      | mk g1 t1 =>
        have hg1 : g1 = g := by rw [hs] at hw; exact hw
        subst hg1
        simp only []
        apply ih (updateAt ts i t1)
        · intro j t0 hj
          rw [getElem?_updateAt]
          by_cases hji : j = i ∧ i < ts.length
          · simp only [hji, and_self, ↓reduceIte]
            obtain ⟨rfl, _⟩ := hji
            have ht0 : t0 = ts0[j] := by simp [hi] at hj; exact hj.symm
            refine ⟨n + 1, ?_⟩
            rw [ht0, hsucc, ← ht, hs]
          · simp only [hji, ↓reduceIte]
            exact hinv j t0 hj
        · -- length preserved by updateAt
          have : ∀ (l : List (Thread G Obj Out)) (k : Nat) (a : Thread G Obj Out), (updateAt l k a).length = l.length := by
            intro l; induction l with
            | nil => intro k a; rfl
            | cons x xs ihx => intro k a; cases k <;> simp [updateAt, ihx]
          rw [this]; exact hlen

/-! ### regenerated footprints -/

/-- functions of packages lint / zlint that may store through a parameter: registration (init time),
    SetConfiguration (excluded from the property's operations), decoders writing into the value they are
    called on, and the result-set builders writing their own fresh result set -/
def allowedParamWriters : List String :=
  [ "(*github.com/zmap/zlint/v3.ResultSet).executeCertificate", "(*github.com/zmap/zlint/v3.ResultSet).executeOcspResponse",
    "(*github.com/zmap/zlint/v3.ResultSet).executeRevocationList", "(*github.com/zmap/zlint/v3.ResultSet).updateErrorStatePresent",
    "(*github.com/zmap/zlint/v3/lint.FilterOptions).AddProfile",
    "(*github.com/zmap/zlint/v3/lint.LintSource).FromString", "(*github.com/zmap/zlint/v3/lint.LintSource).UnmarshalJSON",
    "(*github.com/zmap/zlint/v3/lint.LintStatus).UnmarshalJSON", "(*github.com/zmap/zlint/v3/lint.SourceList).FromString",
    "(*github.com/zmap/zlint/v3/lint.certificateLinterLookupImpl).register", "(*github.com/zmap/zlint/v3/lint.ocspResponseLinterLookupImpl).register",
    "(*github.com/zmap/zlint/v3/lint.revocationListLinterLookupImpl).register",
    "(*github.com/zmap/zlint/v3/lint.registryImpl).register", "(*github.com/zmap/zlint/v3/lint.registryImpl).registerCertificateLint",
    "(*github.com/zmap/zlint/v3/lint.registryImpl).registerOcspResponseLint", "(*github.com/zmap/zlint/v3/lint.registryImpl).registerRevocationListLint",
    "(*github.com/zmap/zlint/v3/lint.registryImpl).SetConfiguration",
    "(github.com/zmap/zlint/v3/lint.SourceList).Swap",
    "(github.com/zmap/zlint/v3/lint.Configuration).Configure", "(github.com/zmap/zlint/v3/lint.Configuration).MaybeConfigure",
    "(github.com/zmap/zlint/v3/lint.Configuration).deserializeConfigInto", "(github.com/zmap/zlint/v3/lint.Configuration).resolveHigherScopedReferences" ]

/-- **The registry's read operations store nothing through the receiver** (Names, Sources, ByName,
    BySource, Lints, Filter, WriteJSON, GetConfiguration, DefaultConfiguration, lintNamesToMap …): only the
    functions listed above write through a parameter at all. -/
theorem registry_readers_readonly : paramWrites.all (fun p => allowedParamWriters.contains p.1) = true := by decide +kernel

/-- lock discipline: only read locks, each acquisition paired with a release in the same function;
    no exclusive lock anywhere (so readers never block each other and no lock order exists) -/
theorem lock_discipline :
    lockSites.all (fun s => s.2 == "RLock" || s.2 == "RUnlock") = true
    ∧ lockSites.all (fun s => s.2 != "RLock" || lockSites.contains (s.1, "RUnlock")) = true := by decide +kernel

/-- shared state is not written while linting: no package-level stores outside the registration API,
    no goroutines started, no stores through linted objects (from C05's obligations) -/
theorem steps_preserve_shared :
    globalWrites.all (fun w => C05.registrationAPI.contains w.1) = true ∧ goroutineSpawns = [] ∧ objectWrites = [] :=
  ⟨C05.no_global_writes.1, C05.no_goroutines, C05.no_object_writes.2⟩

/-- non-vacuity: two threads with read-only steps, an interleaved schedule -/
example : ∃ n, (runSchedule [0, 1, 0] (5 : Nat)
    [({ obj := (1 : Nat), prog := [⟨fun g o => (g + o, g, o)⟩, ⟨fun g o => (g * o, g, o)⟩] } : Thread Nat Nat Nat),
     { obj := 2, prog := [⟨fun g o => (g + o, g, o)⟩] }]).2[0]? =
    some (runAlone n 5 ({ obj := (1 : Nat), prog := [⟨fun g o => (g + o, g, o)⟩, ⟨fun g o => (g * o, g, o)⟩] } : Thread Nat Nat Nat)).2 :=
  (interleaving_eq_sequential 5 _ (by
    intro t ht c hc g o
    simp only [List.mem_cons, List.not_mem_nil, or_false] at ht
    rcases ht with rfl | rfl <;> simp only [List.mem_cons, List.not_mem_nil, or_false] at hc <;> rcases hc with rfl | rfl <;> rfl) [0, 1, 0]).2 0 _ rfl

end Zl.C10
