/-
  C11 — Configuration changes only what it names, and errors stay local.

  Partial: go-toml's parser and its reflection-based Unmarshal are abstracted to the typed-field view of
  ZlModel.Config (assumption A-TOML: key search order name / lower / upper / lower-first, exact kind match,
  unknown keys ignored), validated by the `config` correspondence on generated documents.
-/
import ZlProofs.Lemmas.RegSeq
import ZlModel.Config
import ZlProofs.Props.C04
namespace Zl.C11
open Zl

/-- **Locality**: a lint's configuration outcome depends only on its own namespace and the global
    namespaces its struct embeds. -/
theorem locality (doc doc' : Doc) (spec : Option CfgSpec) (name : String)
    (h : ∀ ns ∈ namespacesOf spec name, doc ns = doc' ns) :
    maybeConfigure doc spec name = maybeConfigure doc' spec name := by
  cases spec with
  | none => rfl
  | some s =>
    simp only [maybeConfigure, configure, namespacesOf] at *
    have h0 : doc name = doc' name := h name List.mem_cons_self
    have hg : s.globals.any (fun g => doc g == .notATable) = s.globals.any (fun g => doc' g == .notATable) := by
      have : ∀ g ∈ s.globals, (doc g == Section.notATable) = (doc' g == Section.notATable) := fun g hg => by rw [h g (List.mem_cons_of_mem _ hg)]
      clear h h0
      generalize s.globals = gl at this
      induction gl with
      | nil => rfl
      | cons a l ih => simp only [List.any_cons]; rw [this a List.mem_cons_self, ih (fun g hg => this g (List.mem_cons_of_mem _ hg))]
    rw [h0, hg]

/-- **No configuration = empty = only unrelated sections**: if none of the lint's namespaces occurs,
    it is configured exactly as with the empty document. -/
theorem absent_is_default (doc : Doc) (spec : Option CfgSpec) (name : String)
    (h : ∀ ns ∈ namespacesOf spec name, doc ns = .absent) :
    maybeConfigure doc spec name = maybeConfigure (fun _ => .absent) spec name :=
  locality doc _ spec name h

/-- … and that is "all defaults, no error" -/
theorem empty_is_defaults (s : CfgSpec) (name : String) : maybeConfigure (fun _ => .absent) (some s) name = .ok (defaults s.fields) := by
  simp only [maybeConfigure, configure]
  have : s.globals.any (fun _ => (Section.absent == Section.notATable)) = false := by
    induction s.globals with
    | nil => rfl
    | cons a l ih => simp only [List.any_cons, ih]; rfl
  simp [this]

/-- **Setting lint a's option changes nothing for another lint** whose namespaces do not include a's. -/
theorem other_lints_unaffected (doc : Doc) (a : String) (sec : Section) (spec : Option CfgSpec) (name : String)
    (hne : a ∉ namespacesOf spec name) :
    maybeConfigure (fun ns => if ns == a then sec else doc ns) spec name = maybeConfigure doc spec name := by
  apply locality
  intro ns hns
  have : (ns == a) = false := by
    cases h : ns == a with
    | false => rfl
    | true => have hna : ns = a := by simpa using h
              exact absurd (hna ▸ hns) hne
  simp [this]

/-- **A section that is not a table is a configuration error** — an error value, never a panic: the
    model's `configure` is total (this is what the `fix:` commit 268fc05 made true of the code). -/
theorem not_a_table_is_error (doc : Doc) (s : CfgSpec) (name : String) (h : doc name = .notATable) :
    ∃ e, maybeConfigure doc (some s) name = .error e := by
  simp only [maybeConfigure, configure, h]
  exact ⟨_, rfl⟩

/-- an ill-typed value for a declared field is a configuration error -/
theorem ill_typed_is_error (f : FieldSpec) (rest : List FieldSpec) (tbl : List (String × TVal)) (v : TVal)
    (hv : findField tbl f.name = some v) (hk : v.kind ≠ f.kind) : ∃ e, decodeFields (f :: rest) tbl = .error e := by
  simp only [decodeFields, hv, Option.map_some]
  have : (v.kind == f.kind) = false := by simpa using hk
  simp [this]

/-- **Errors stay local in a run**: the lint with the configuration error reports fatal with the error
    text and nothing of it is run; every lint whose configure outcome is unchanged reports exactly
    what it reports without the broken section (framework level: C04.config_error_fatal; the
    per-lint independence is C07). -/
theorem error_local {Obj Cfg : Type} (k : Kind) (sc : Scope) (t : Time) (l : Lint Obj Cfg) (o : Obj) (cfg : Cfg)
    (hs : k = .cert → inScope l.md.source sc = true) (e : String) (hc : l.configure cfg = .ok (some e)) :
    (execute k sc t l o cfg).1 = .result Status.fatal e ∧ Call.applies ∉ (execute k sc t l o cfg).2 ∧ Call.body ∉ (execute k sc t l o cfg).2 := by
  rw [C04.config_error_fatal k sc t l o cfg hs e hc]
  simp

/-! ### configuration does not leak between registries or runs -/

/-- drop every operation on registry 2 -/
def onlyR1 {D : Type} : List (CfgOp D) → List (CfgOp D)
  | [] => []
  | .set1 d :: rest => .set1 d :: onlyR1 rest
  | .lint1 :: rest => .lint1 :: onlyR1 rest
  | _ :: rest => onlyR1 rest

def obs1 {D : Type} : CfgState D → List (CfgOp D) → List D
  | _, [] => []
  | s, .lint1 :: rest => s.c1 :: obs1 s rest
  | s, op :: rest => obs1 (cfgStep s op).1 rest

/-- **No leak**: what runs on registry 1 observe is a function of the SetConfiguration calls on
    registry 1 alone — no SetConfiguration on, Filter into, or run of registry 2 changes it. -/
theorem no_leak_r1 {D : Type} (ops : List (CfgOp D)) (s s' : CfgState D) (h : s.c1 = s'.c1) :
    obs1 s ops = obs1 s' (onlyR1 ops) := by
  induction ops generalizing s s' with
  | nil => rfl
  | cons op rest ih =>
    cases op with
    | set1 d => simp only [obs1, onlyR1, cfgStep]; exact ih _ _ rfl
    | set2 d => simp only [obs1, onlyR1, cfgStep]; exact ih _ _ h
    | filter => simp only [obs1, onlyR1, cfgStep]; exact ih _ _ h
    | lint1 => simp only [obs1, onlyR1]; rw [h]; congr 1; exact ih _ _ h
    | lint2 => simp only [obs1, onlyR1, cfgStep]; exact ih _ _ h

/-- a run sees the configuration last set on its registry -/
theorem sees_last_set {D : Type} (s : CfgState D) (d : D) : cfgRun s [.set1 d, .lint1] = [d] := rfl

/-- a filtered registry inherits the configuration in force at filtering time, and later changes of
    the source registry do not reach it -/
theorem filter_inherits {D : Type} (s : CfgState D) (d d' : D) :
    cfgRun s [.set1 d, .filter, .set1 d', .lint2, .lint1] = [d, d'] := rfl

def encodeDefaults (fs : List FieldSpec) : List (String × TVal) := fs.map (fun f => (f.name, ⟨f.kind, f.dflt⟩))

theorem find_encoded (fs : List FieldSpec) (hnd : (fs.map (·.name)).Nodup) (f : FieldSpec) (hf : f ∈ fs) :
    (encodeDefaults fs).find? (fun p => p.1 == f.name) = some (f.name, ⟨f.kind, f.dflt⟩) := by
  induction fs with
  | nil => cases hf
  | cons g rest ih =>
    simp only [List.map_cons] at hnd
    have hnd' := List.nodup_cons.mp hnd
    simp only [encodeDefaults, List.map_cons, List.find?_cons]
    rcases List.mem_cons.mp hf with rfl | hm
    · simp
    · have hne : (g.name == f.name) = false := by
        have : g.name ≠ f.name := fun h => hnd'.1 (h ▸ List.mem_map.mpr ⟨f, hm, rfl⟩)
        simpa using this
      simp only [hne]
      exact ih hnd'.2 hm

/-- **Example configuration round trip (partial: scalar int / bool / string fields)**: decoding a table
    that spells out every field's default gives back the defaults, for specs with distinct field names. -/
theorem defaults_roundtrip_partial (fs : List FieldSpec) (hnd : (fs.map (·.name)).Nodup) :
    decodeFields fs (encodeDefaults fs) = .ok (defaults fs) := by
  have key : ∀ sub : List FieldSpec, (∀ f ∈ sub, f ∈ fs) → decodeFields sub (encodeDefaults fs) = .ok (defaults sub) := by
    intro sub
    induction sub with
    | nil => intro _; rfl
    | cons f rest ih =>
      intro hsub
      have hfind : findField (encodeDefaults fs) f.name = some ⟨f.kind, f.dflt⟩ := by
        unfold findField keysToTry
        simp [List.findSome?_cons, find_encoded fs hnd f (hsub f List.mem_cons_self)]
      simp only [decodeFields, hfind, Option.map_some, beq_self_eq_true, ↓reduceIte]
      rw [ih (fun g hg => hsub g (List.mem_cons_of_mem _ hg))]
      rfl
  exact key fs (fun f hf => hf)

/-- non-vacuity: the probe spec of the harness, configured from a document that sets one field -/
example : configure (fun ns => if ns == "e_x" then .table [("a", ⟨.int, "5"⟩), ("Zextra", ⟨.str, "q"⟩)] else .absent)
    { fields := [⟨"A", .int, "7"⟩, ⟨"B", .bool, "false"⟩] } "e_x" = .ok [("A", "5"), ("B", "false")] := by rfl


/-! ## Registries as objects: no leak at the level of the heap

  `ZlModel/RegSeq.lean` models registries as objects on a heap with handles that may alias (`Filter` with empty
  options returns its receiver; any other successful `Filter` allocates). It is tied to registration.go by the
  `regseq` correspondence: arbitrary sequences of NewRegistry / Register* / Filter / SetConfiguration /
  GetConfiguration / Names / Sources / WriteJSON, every observation compared. -/
section Heap
open Zl.RegSeq

/-- reads (GetConfiguration, Names, Sources, WriteJSON) change nothing -/
theorem heap_reads_pure (hp : Heap) (h : Nat) :
    (step hp (.getCfg h)).1 = hp ∧ (step hp (.names h)).1 = hp ∧ (step hp (.sources h)).1 = hp ∧ (step hp (.listing h)).1 = hp :=
  reads_pure hp h

/-- `SetConfiguration` reaches exactly one registry object -/
theorem heap_setConfiguration_local (hp : Heap) (h : Nat) (tag : String) (j : Nat) (hj : hp.handles[h]? ≠ some j) :
    (step hp (.setCfg h tag)).1.regs[j]? = hp.regs[j]? := setCfg_frame hp h tag j hj

/-- a filtered registry is a new object that starts with its source's configuration of that moment … -/
theorem heap_filter_inherits (hp : Heap) (h i : Nat) (r r' : Reg) (o : FilterOptions)
    (hr : hp.regOf h = some (i, r)) (hf : filter r o = .ok r') (hne : o.empty = false) :
    (step hp (.filter h o)).1.regs = hp.regs ++ [r'] ∧ (step hp (.filter h o)).1.handles = hp.handles ++ [hp.regs.length] ∧ r'.cfg = r.cfg :=
  filter_allocates hp h i r r' o hr hf hne

/-- … and configuring the source afterwards does not reach it -/
theorem heap_no_leak (hp : Heap) (h i : Nat) (r r' : Reg) (o : FilterOptions) (tag : String)
    (hr : hp.regOf h = some (i, r)) (hf : filter r o = .ok r') (hne : o.empty = false) (hi : i < hp.regs.length) :
    (step (step hp (.filter h o)).1 (.setCfg h tag)).1.regs[hp.regs.length]? = some r' :=
  no_leak_after_filter hp h i r r' o tag hr hf hne hi

end Heap

end Zl.C11
