/-
  C12 — Every lint in the tree is registered once, reachable and well-formed.

  Two independent derivations are compared by the kernel: `registrations` (F1: what the Go AST /
  SSA of the lint source tree says) and `runtimeLints` / `runtimeNames…` (F2: what a default build's
  registry holds at run time). Plus the induction showing the agreement of the lookup tables is a
  property of `register`, not an accident of today's table.
-/
import ZlProofs.Lemmas.Tables
import ZlProofs.Lemmas.Filter
namespace Zl.C12
open Zl Generated

/-- the extractor read the tree without errors (an unreadable registration makes this fail) -/
theorem extractor_clean : extractorErrors = 0 := by decide

/-- **Census = registry.** The names registered in the sources (sorted) are exactly `Names()` of a
    default build — hence equal counts — and likewise per kind. -/
theorem census_eq_runtime : registrations.map (·.key) = runtimeNames := by decide +kernel

theorem census_eq_runtime_cert : (registrations.filter (·.kind == 0)).map (·.key) = runtimeNames_cert := by decide +kernel
theorem census_eq_runtime_crl : (registrations.filter (·.kind == 1)).map (·.key) = runtimeNames_crl := by decide +kernel
theorem census_eq_runtime_ocsp : (registrations.filter (·.kind == 2)).map (·.key) = runtimeNames_ocsp := by decide +kernel

theorem count_eq : registrations.length = runtimeLints.length ∧ runtimeLints.length = runtimeNames.length
    ∧ runtimeJSONLines = runtimeLints.length := by decide +kernel

/-- names are listed in sorted order and are unique **across** certificate, CRL and OCSP lints -/
theorem names_sorted_unique : strictSorted runtimeNames = true := by decide +kernel
theorem names_nodup : runtimeNames.Nodup := strictSorted_nodup _ names_sorted_unique
theorem kind_names_sorted : strictSorted runtimeNames_cert = true ∧ strictSorted runtimeNames_crl = true
    ∧ strictSorted runtimeNames_ocsp = true := by decide +kernel

/-- every registration call sits in an `init` function with a literal name, and every lint type
    (a type with CheckApplies and Execute) is the implementation of exactly one registration -/
theorem all_registered_in_init : registrations.all (fun r => r.inInit && r.nameLiteral) = true := by decide +kernel
theorem lint_types_eq_registered_types : (msort (registrations.map (·.typeKey)) == msort lintTypes) = true := by decide +kernel
theorem registered_once : strictSorted (msort (registrations.map (·.typeKey))) = true := by decide +kernel

/-- every lint package directory is linked into a default build (blank import in zlint.go) -/
theorem all_packages_linked : lintDirKeys.all (fun d => blankImportKeys.contains d) = true
    ∧ registrationPkgKeys.all (fun p => blankImportKeys.contains p) = true := by decide +kernel

/-- no file below v3/lints that the default build leaves out (a name ending in `_test.go`, a `_GOOS`/`_GOARCH`
    suffix, a build constraint) holds a registration call: every lint in the tree is in every default build -/
theorem no_registration_outside_default_build : excludedRegistrations.isEmpty = true := by decide

/-- **Lookups agree** (run-time observation of the real registry): each listed lint is what
    `ByName` returns for its name and occurs exactly once in `BySource` of its source; per kind the
    listing, the name list and the source list describe the same set; the registry-level source
    list is their union; `BySource` has no further elements. -/
theorem lookups_agree :
    runtimeLints.all (fun l => l.byNameOK && l.inBySource == 1) = true
    ∧ msort ((runtimeLints.filter (·.kind == 0)).map (·.key)) = runtimeNames_cert
    ∧ msort ((runtimeLints.filter (·.kind == 1)).map (·.key)) = runtimeNames_crl
    ∧ msort ((runtimeLints.filter (·.kind == 2)).map (·.key)) = runtimeNames_ocsp
    ∧ dedupSorted (msort ((runtimeLints.filter (·.kind == 0)).map (·.sourceK))) = msort runtimeSourceKeys_cert
    ∧ dedupSorted (msort ((runtimeLints.filter (·.kind == 1)).map (·.sourceK))) = msort runtimeSourceKeys_crl
    ∧ dedupSorted (msort ((runtimeLints.filter (·.kind == 2)).map (·.sourceK))) = msort runtimeSourceKeys_ocsp
    ∧ dedupSorted (msort (runtimeLints.map (·.sourceK))) = msort runtimeSourceKeys
    ∧ runtimeBySourceCounts.all (fun c => (runtimeLints.filter (fun l => l.kind == c.1 && l.sourceK == c.2.1)).length == c.2.2) = true := by
  decide +kernel

/-- one number per lint: name key (most significant), source key, kind, configurable, has-description -/
def tupleKey (key sourceK kind : Nat) (configurable hasDescription : Bool) : Nat :=
  ((key * 256 ^ 24 + sourceK) * 8 + kind) * 4 + (if configurable then 2 else 0) + (if hasDescription then 1 else 0)

/-- the source-level census and the run-time registry agree, lint by lint, on name, kind, source,
    configurability and presence of a description (source keys are below 256^24, checked) -/
theorem census_metadata_agrees :
    (msort (runtimeLints.map (fun l => tupleKey l.key l.sourceK l.kind l.configurable l.hasDescription))
      == registrations.map (fun r => tupleKey r.key r.sourceK r.kind r.configurable r.hasDescription)) = true
    ∧ runtimeLints.all (fun l => decide (l.sourceK < 256 ^ 24)) = true
    ∧ registrations.all (fun r => decide (r.sourceK < 256 ^ 24)) = true := by decide +kernel

/-- known sources: the constants of lint/source.go except `Unknown` -/
def knownSourceKeys : List Nat := (sourceConstKeys.filter (fun p => p.1 != "UnknownLintSource")).map (·.2)

/-- **Well-formed.** Non-empty lower-case visible-ASCII name with an e_/w_/n_ prefix, a description, a
    known source, a non-nil constructor and instance, effective date before ineffective date when both are set. -/
theorem wellformed :
    runtimeLints.all (fun l =>
      l.key != 0
      && prefixClass nameWidth l.key < 3
      && paddedNameOK (bytesLE nameWidth l.key)
      && l.hasDescription
      && knownSourceKeys.contains l.sourceK
      && !l.ctorNil && !l.instanceNil
      && (l.effZero || l.ineffZero || decide (l.effSec < l.ineffSec) || (l.effSec == l.ineffSec && decide (l.effNsec < l.ineffNsec)))) = true := by
  decide +kernel

/-- all effective / ineffective dates in the registry are whole seconds (so a one-second step is the
    finest distinction an encoded time can make at a window boundary — used by C03's boundary sweep) -/
theorem dates_whole_seconds : runtimeLints.all (fun l => l.effNsec == 0 && l.ineffNsec == 0) = true := by decide +kernel

/-! ### the invariant is a property of `register` -/

/-- apply a sequence of registrations, ignoring the rejected ones (what a sequence of init() calls
    amounts to, panics aside) -/
def registerAll {α : Type} (lk : Lookup α) (es : List (Entry α)) : Lookup α :=
  es.foldl (fun lk e => match lk.register e with | .ok lk' => lk' | .error _ => lk) lk

/-- **For every registration sequence** the four tables stay mutually consistent, names stay unique
    per kind, and duplicates / empty names / nil constructors are rejected without changing state. -/
theorem register_inv_all {α : Type} (es : List (Entry α)) (lk : Lookup α) (h : LInv lk) : LInv (registerAll lk es) := by
  induction es generalizing lk with
  | nil => exact h
  | cons e es ih =>
    simp only [registerAll, List.foldl]
    cases hr : lk.register e with
    | ok lk' => exact ih lk' (register_inv lk lk' e h hr).1
    | error err => exact ih lk h

theorem registered_from_empty {α : Type} (es : List (Entry α)) : LInv (registerAll ({} : Lookup α) es) :=
  register_inv_all es {} LInv.empty

/-- the listing of a registry built by any registration sequence contains exactly the accepted
    entries, in order -/
theorem registerAll_lints {α : Type} (es : List (Entry α)) (lk : Lookup α) (h : LInv lk) :
    ∃ acc, (registerAll lk es).lints = lk.lints ++ acc ∧ ∀ e ∈ acc, e ∈ es ∧ e.valid := by
  induction es generalizing lk with
  | nil => exact ⟨[], by simp [registerAll], by simp⟩
  | cons e es ih =>
    simp only [registerAll, List.foldl]
    cases hr : lk.register e with
    | ok lk' =>
      obtain ⟨hinv, hl, hv, _⟩ := register_inv lk lk' e h hr
      obtain ⟨acc, hacc, hall⟩ := ih lk' hinv
      refine ⟨e :: acc, ?_, ?_⟩
      · simp only [registerAll] at hacc; rw [hacc, hl]; simp
      · intro x hx
        rcases List.mem_cons.mp hx with rfl | hx
        · exact ⟨List.mem_cons_self, hv⟩
        · exact ⟨List.mem_cons_of_mem _ (hall x hx).1, (hall x hx).2⟩
    | error err =>
      obtain ⟨acc, hacc, hall⟩ := ih lk h
      exact ⟨acc, hacc, fun x hx => ⟨List.mem_cons_of_mem _ (hall x hx).1, (hall x hx).2⟩⟩

/-- non-vacuity -/
example : registrations.length = 377 ∧ lintTypes.length = 377 := by decide +kernel

end Zl.C12
