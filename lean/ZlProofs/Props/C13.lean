/-
  C13 — Whatever the tool lists can be used to select.
-/
import ZlProofs.Props.C08
import ZlProofs.Lemmas.Tables
import ZlModel.Generated.Tables
namespace Zl.C13
open Zl Generated
variable {α Cfg : Type}

/-- Every name the registry lists is accepted as an include name and as an exclude name
    (names without surrounding blanks — true of every registered name, `listed_names_have_no_blanks`). -/
theorem listed_name_selectable (r : Registry α Cfg) (hr : RInv r) (n : String) (hn : n ∈ r.names)
    (htrim : trimSpace n = n) :
    (∃ r', filter r { includeNames := [n] } = .ok r') ∧ (∃ r', filter r { excludeNames := [n] } = .ok r') := by
  have hfind : r.find (trimSpace n) ≠ none := by
    rw [htrim]
    intro hnone
    obtain ⟨k, hk⟩ := ((names_spec hr).2 n).mp hn
    exact (find_none_iff hr n).mp hnone k hk
  constructor
  · cases hf : filter r { includeNames := [n] } with
    | ok r' => exact ⟨r', rfl⟩
    | error err =>
      exfalso
      obtain ⟨_, h⟩ := (C08.filter_error_iff r hr { includeNames := [n] }).mp ⟨err, hf⟩
      rcases h with ⟨m, hm, hmn⟩ | ⟨hnf, _⟩
      · simp only [List.nil_append, List.mem_singleton] at hm; subst hm; exact hfind hmn
      · cases hnf
  · cases hf : filter r { excludeNames := [n] } with
    | ok r' => exact ⟨r', rfl⟩
    | error err =>
      exfalso
      obtain ⟨_, h⟩ := (C08.filter_error_iff r hr { excludeNames := [n] }).mp ⟨err, hf⟩
      rcases h with ⟨m, hm, hmn⟩ | ⟨hnf, _⟩
      · simp only [List.append_nil, List.mem_singleton] at hm; subst hm; exact hfind hmn
      · cases hnf

/-- … and selecting it by include name yields exactly that lint. -/
theorem include_listed_name_selects_it (r r' : Registry α Cfg) (hr : RInv r) (n : String) (htrim : trimSpace n = n)
    (h : filter r { includeNames := [n] } = .ok r') (k : Kind) (e : Entry α) :
    e ∈ (r'.lookupOf k).lints ↔ (e ∈ (r.lookupOf k).lints ∧ e.md.name = n) := by
  have := (C08.filter_spec r r' hr { includeNames := [n] } (by simp [FilterOptions.empty]) h).2.2 k e
  rw [this]
  unfold C08.selected
  simp only [List.not_mem_nil, not_false_eq_true, true_or, reduceCtorEq, false_implies, implies_true, false_and, exists_false,
    List.cons_ne_self, List.mem_singleton, exists_eq_left, htrim, true_and, false_or]
  constructor
  · rintro ⟨a, b⟩; exact ⟨a, b.symm⟩
  · rintro ⟨a, b⟩; exact ⟨a, b.symm⟩

/-- An unknown name is rejected with an error, never silently ignored (in either list). -/
theorem unknown_name_rejected (r : Registry α Cfg) (hr : RInv r) (o : FilterOptions) (n : String)
    (hn : n ∈ o.includeNames ∨ n ∈ o.excludeNames) (hunk : r.find (trimSpace n) = none) :
    ∃ err, filter r o = .error err := by
  apply (C08.filter_error_iff r hr o).mpr
  constructor
  · unfold FilterOptions.empty
    rcases hn with h | h
    · cases hi : o.includeNames with
      | nil => rw [hi] at h; cases h
      | cons a l => simp
    · cases he : o.excludeNames with
      | nil => rw [he] at h; cases h
      | cons a l => simp
  · left
    rcases hn with h | h
    · exact ⟨n, List.mem_append.mpr (Or.inr h), hunk⟩
    · exact ⟨n, List.mem_append.mpr (Or.inl h), hunk⟩

/-! ### sources -/

/-- Every source the registry lists is a declared constant, is accepted by `LintSource.FromString`
    (hence by `SourceList.FromString` and the include/exclude-sources options) and by the JSON decoder. -/
theorem listed_sources_accepted :
    runtimeSources.all (fun s => fromStringCases.contains s && unmarshalCases.contains s
      && (sourceConsts.map (·.2)).contains s && s != "Unknown") = true := by decide

/-- the two case lists accept only declared constants, and never the Unknown marker -/
theorem case_lists_are_constants :
    fromStringCases.all (fun s => (sourceConsts.map (·.2)).contains s && s != "Unknown") = true
    ∧ unmarshalCases.all (fun s => (sourceConsts.map (·.2)).contains s && s != "Unknown") = true := by decide

/-- `SourceList.FromString`'s loop: succeeds iff every non-blank value is in the case list, and then
    returns exactly the trimmed non-blank values, in order. -/
theorem sourceList_go_ok (cases : List String) :
    ∀ (vals acc : List String), (∀ v ∈ vals, trimSpace v = "" ∨ cases.contains (trimSpace v) = true) →
      sourceListFromString.go cases vals acc = .ok (acc ++ (vals.map trimSpace).filter (· != "")) := by
  intro vals
  induction vals with
  | nil => intro acc _; simp [sourceListFromString.go]
  | cons v rest ih =>
    intro acc h
    have hv := h v List.mem_cons_self
    have hrest := fun x hx => h x (List.mem_cons_of_mem _ hx)
    by_cases he : trimSpace v = ""
    · simp only [sourceListFromString.go, he, beq_self_eq_true, ↓reduceIte]
      rw [ih acc hrest]; simp [he]
    · have hc : cases.contains (trimSpace v) = true := by rcases hv with h | h; exact absurd h he; exact h
      have he' : (trimSpace v == "") = false := by simpa using he
      simp only [sourceListFromString.go, he', Bool.false_eq_true, ↓reduceIte, hc]
      rw [ih _ hrest]
      simp [he]

/-- An unknown source value is rejected with an error rather than dropped. -/
theorem unknown_source_rejected (cases : List String) :
    ∀ (vals acc : List String), (∃ v ∈ vals, trimSpace v ≠ "" ∧ cases.contains (trimSpace v) = false) →
      ∃ x, sourceListFromString.go cases vals acc = .error x := by
  intro vals
  induction vals with
  | nil => intro acc h; obtain ⟨v, hv, _⟩ := h; cases hv
  | cons v rest ih =>
    intro acc h
    by_cases he : trimSpace v = ""
    · simp only [sourceListFromString.go, he, beq_self_eq_true, ↓reduceIte]
      apply ih
      obtain ⟨x, hx, hx2⟩ := h
      rcases List.mem_cons.mp hx with rfl | hx
      · exact absurd he hx2.1
      · exact ⟨x, hx, hx2⟩
    · have he' : (trimSpace v == "") = false := by simpa using he
      by_cases hc : cases.contains (trimSpace v) = true
      · simp only [sourceListFromString.go, he', Bool.false_eq_true, ↓reduceIte, hc]
        apply ih
        obtain ⟨x, hx, hx2⟩ := h
        rcases List.mem_cons.mp hx with rfl | hx
        · rw [hc] at hx2; exact absurd hx2.2 (by simp)
        · exact ⟨x, hx, hx2⟩
      · simp only [sourceListFromString.go, he', Bool.false_eq_true, ↓reduceIte, hc]
        exact ⟨_, rfl⟩

/-- every listed source, written alone, is accepted by the model of `SourceList.FromString` over the
    regenerated case list (the comma splitting itself is library code, exercised by the tie) -/
theorem listed_source_parses (s : String) (hs : s ∈ runtimeSources) (htrim : trimSpace s = s) (hne : s ≠ "") :
    sourceListFromString.go fromStringCases [s] [] = .ok [s] := by
  have hall := List.all_eq_true.mp listed_sources_accepted s hs
  simp only [Bool.and_eq_true] at hall
  have := sourceList_go_ok fromStringCases [s] [] (by intro v hv; simp only [List.mem_singleton] at hv; subst hv; right; rw [htrim]; exact hall.1.1.1)
  rw [this]
  simp [htrim, hne]

/-! ### profiles -/

/-- every lint named by a registered profile exists (no profile is registered in this tree: the
    evidence reports the count, a vacuous pass is not counted as coverage) -/
theorem profiles_exist : profiles.all (fun p => p.2.all (fun n => runtimeNames.contains n)) = true := by decide +kernel

/-- registered names contain no blanks, so trimming is the identity on them (bytes are visible ASCII) -/
theorem listed_names_have_no_blanks :
    runtimeLints.all (fun l => paddedNameOK (bytesLE nameWidth l.key)) = true := by decide +kernel

/-- non-vacuity -/
example : runtimeSources.length ≥ 10 ∧ fromStringCases.length ≥ 10 := by decide

end Zl.C13
