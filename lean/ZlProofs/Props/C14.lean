/-
  C14 — JSON output is faithful and reversible.
-/
import ZlProofs.Lemmas.JsonString
import ZlProofs.Lemmas.Utf8
import ZlModel.Codec
import ZlModel.Generated.Tables
import ZlModel.Generated.Registry
namespace Zl.C14
open Zl Generated

abbrev label := statusLabel statusString statusStringDefault
abbrev table := labelToStatus statusString statusStringDefault statusLabelTable

/-- the eight statuses 0..7 are exactly the ones with a label -/
theorem defined_statuses : statusString.map (·.1) = [0, 1, 2, 3, 4, 5, 6, 7]
    ∧ (statusConsts.map (·.2)) = [0, 1, 2, 3, 4, 5, 6, 7] := by decide

/-- each defined status has its own distinct, non-empty label -/
theorem labels_injective : (statusString.map (·.2)).Nodup ∧ statusString.all (fun p => p.2 != "") = true := by decide

/-- the labels are the documented, stable ones -/
theorem labels_stable : statusString = [(0, "reserved"), (1, "NA"), (2, "NE"), (3, "pass"), (4, "info"), (5, "warn"), (6, "error"), (7, "fatal")] := by decide

/-- the decode table maps every label back to its own status and has nothing else in it -/
theorem table_exact : table = [("reserved", 0), ("NA", 1), ("NE", 2), ("pass", 3), ("info", 4), ("warn", 5), ("error", 6), ("fatal", 7)] := by decide

/-- **decode ∘ encode = id** on all eight statuses (with the JSON quotes) -/
theorem status_roundtrip : [0, 1, 2, 3, 4, 5, 6, 7].all (fun s => decodeStatus table (encodeStatus statusString statusStringDefault s) == some s) = true := by decide

/-- no label contains a double quote, so the quote stripping in `UnmarshalJSON` cannot merge two labels -/
theorem labels_quote_free : statusString.all (fun p => p.2.toList.all (· != '"')) = true := by decide

/-- an out-of-range status is encoded as the default label, which does not decode (it is never silently
    turned into a defined status) -/
theorem out_of_range_not_decodable : decodeStatus table (encodeStatus statusString statusStringDefault 8) = none
    ∧ decodeStatus table (encodeStatus statusString statusStringDefault (-1)) = none := by decide

/-- **Unknown labels are rejected**: decoding succeeds only for (quote-stripped) table labels. -/
theorem unknown_label_rejected (lt : List (String × Int)) (data : String) :
    decodeStatus lt data = none ↔ ∀ p ∈ lt, p.1 ≠ stripQuotes data := by
  unfold decodeStatus
  rw [Option.map_eq_none_iff, List.find?_eq_none]
  constructor
  · intro h p hp heq; exact h p hp (by simpa using heq)
  · intro h p hp heq; exact h p hp (by simpa using heq)

theorem decode_some_is_label (lt : List (String × Int)) (data : String) (s : Int) (h : decodeStatus lt data = some s) :
    (stripQuotes data, s) ∈ lt := by
  unfold decodeStatus at h
  obtain ⟨p, hp, hs⟩ := Option.map_eq_some_iff.mp h
  have hm := List.mem_of_find?_eq_some hp
  have he : p.1 = stripQuotes data := by simpa using List.find?_some hp
  rw [← he, ← hs]; exact hm

/-- **Result round trip (partial: the JSON string codec is abstracted as `sanitize`).** For every
    defined status and any details text, decoding the encoding gives back the status and the
    sanitised details; empty details stay empty. -/
theorem result_roundtrip_partial (sanitize : String → String) (status : Int) (details : String)
    (hs : status ∈ [0, 1, 2, 3, 4, 5, 6, 7]) :
    decodeResult table (encodeResult statusString statusStringDefault sanitize status details)
      = some (status, if details == "" then "" else sanitize details) := by
  have key : ∀ s ∈ [0, 1, 2, 3, 4, 5, 6, 7], decodeStatus table (label s) = some s := by decide
  unfold decodeResult encodeResult
  simp only [key status hs, Option.map_some]
  split <;> simp

/-- struct tags: results, version, timestamp and the four flags have distinct keys; a result's
    status is always written (no omitempty), details are omitted only when empty, metadata is not
    written into results -/
theorem resultset_tags :
    structResultSet = [("Version", "version"), ("Timestamp", "timestamp"), ("Results", "lints"), ("NoticesPresent", "notices_present"),
      ("WarningsPresent", "warnings_present"), ("ErrorsPresent", "errors_present"), ("FatalsPresent", "fatals_present")]
    ∧ structLintResult = [("Status", "result"), ("Details", "details,omitempty"), ("LintMetadata", "-")] := by decide

/-- listing lines carry name, description, citation and source; only the two dates are hidden -/
theorem metadata_tags :
    structLintMetadata = [("Name", "name,omitempty"), ("Description", "description,omitempty"), ("Citation", "citation,omitempty"),
      ("Source", "source"), ("EffectiveDate", "-"), ("IneffectiveDate", "-")] := by decide

/-- the listing has exactly one line per registered lint of every kind -/
theorem listing_one_line_per_lint {α Cfg : Type} (r : Registry α Cfg) :
    r.listing.length = r.cert.lints.length + r.ocsp.lints.length + r.crl.lints.length := by
  simp [Registry.listing, List.length_append]; omega

/-- … and for the real registry that is the number of registered lints; every source that can occur in
    a line is accepted by the source decoder -/
theorem listing_real : runtimeJSONLines = runtimeLints.length
    ∧ runtimeLints.all (fun l => (decodeSource unmarshalCases l.source).isSome) = true := by decide +kernel


/-! ## The JSON string codec itself (discharges the `sanitize` hypothesis of `result_roundtrip_partial` for the model)

  `JsonString.quote` / `unquote` model encoding/json's `appendString` and scanner + `unquoteBytes` byte for byte
  (tied to the standard library by the `jsonstr` correspondence, ≈ 250 k strings and literals in the thorough tier). -/
section StringCodec
open Zl.JsonString

/-- **Details survive a JSON round trip exactly, up to U+FFFD for bytes that are not UTF-8**: for every byte string,
    with HTML escaping (json.Marshal, the result output) or without (the lint listing's encoder). -/
theorem details_roundtrip (html : Bool) (details : Bytes) : unquote (quote html details) = some (sanitize details) :=
  unquote_quote html details

/-- ASCII text (every byte below 0x80, control characters and quotes included) comes back unchanged -/
theorem sanitize_ascii : ∀ (n : Nat) (bs : Bytes), (∀ b ∈ bs, b < 128) → sanitizeFuel n bs = bs.take n
  | 0, bs, _ => by simp [sanitizeFuel]
  | n + 1, [], _ => by simp [sanitizeFuel]
  | n + 1, b :: rest, h => by
    have hb : b < 0x80 := h b (by simp)
    simp only [sanitizeFuel, hb, if_true, List.take_succ_cons]
    rw [sanitize_ascii n rest (fun x hx => h x (by simp [hx]))]

theorem ascii_details_roundtrip (html : Bool) (details : Bytes) (h : ∀ b ∈ details, b < 128) :
    unquote (quote html details) = some details := by
  rw [details_roundtrip]
  unfold sanitize
  rw [sanitize_ascii _ _ h]
  simp

/-- **The model's copy-through of a well-formed multi-byte sequence is what `unquoteBytes` does**: the real code
    decodes the rune (`utf8.DecodeRune`) and re-encodes it (`utf8.EncodeRune`); for every head the decoder accepts
    (width ≥ 2) that yields exactly the bytes consumed, and the decoder consumed exactly `width` of them.
    This discharges inside the model what used to be an assumption about UTF-8 (overlong forms, surrogates and
    values above U+10FFFF are all excluded by `width`'s ranges). -/
theorem copy_through_is_decode_encode (b : Nat) (rest : Bytes) (hw : 2 ≤ Zl.Thresholds.width (b :: rest)) :
    encodeRune (Zl.Thresholds.decodeRune (b :: rest)).1 = (b :: rest).take (Zl.Thresholds.width (b :: rest)) ∧
    (Zl.Thresholds.decodeRune (b :: rest)).2 = Zl.Thresholds.width (b :: rest) :=
  Zl.Utf8.encode_decode b rest hw

example : 2 ≤ Zl.Thresholds.width [0xF4, 0x8F, 0xBF, 0xBF, 0x41] ∧ Zl.Thresholds.width [0xED, 0xA0, 0x80] = 1
    ∧ Zl.Thresholds.width [0xC0, 0x80] = 1 ∧ Zl.Thresholds.width [0xF4, 0x90, 0x80, 0x80] = 1 := by decide

/-- the replacement is visible and bounded: a lone continuation byte becomes EF BF BD, a valid sequence is kept -/
example : sanitize [0x41, 0xFF, 0x42] = [0x41, 0xEF, 0xBF, 0xBD, 0x42] ∧ sanitize [0xC3, 0xA9] = [0xC3, 0xA9]
    ∧ sanitize [0xE2, 0x80, 0xA8] = [0xE2, 0x80, 0xA8] ∧ sanitize [0xC3] = [0xEF, 0xBF, 0xBD] := by decide
example : quote true [0x3c, 0x22, 0x0a] = [0x22, 0x5c, 0x75, 0x30, 0x30, 0x33, 0x63, 0x5c, 0x22, 0x5c, 0x6e, 0x22] := by decide

end StringCodec

end Zl.C14
