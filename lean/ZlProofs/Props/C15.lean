/-
  C15 — The CLI reports what the library computes and fails closed.

  Partial: only the decision logic is proved (dispatch, format override, counting). That the binary
  prints exactly the library's results, exits non-zero with empty stdout on undecodable input and
  unknown selectors, is observed by running the built binary against the library (search), not proved.
-/
import ZlModel.Cli
import ZlModel.Generated.Tables
namespace Zl.C15
open Zl Generated

/-- every (format, PEM type, base64 validity) goes to exactly one of certificate / CRL / failure — the
    function is total — and the cases are exactly these -/
theorem dispatch_total (inform : String) (pemType : Option String) (b64ok : Bool) :
    dispatch inform pemType b64ok = .cert ∨ dispatch inform pemType b64ok = .crl ∨ dispatch inform pemType b64ok = .fail := by
  cases h : dispatch inform pemType b64ok <;> simp

theorem dispatch_cert_iff (inform : String) (pemType : Option String) (b64ok : Bool) :
    dispatch inform pemType b64ok = .cert ↔
      (inform = "pem" ∧ pemType = some "CERTIFICATE") ∨ inform = "der" ∨ (inform = "base64" ∧ b64ok = true) := by
  unfold dispatch
  by_cases h1 : inform = "pem"
  · subst h1
    cases pemType with
    | none => simp
    | some t =>
      by_cases ht : t = "CERTIFICATE"
      · simp [ht]
      · by_cases ht2 : t = "X509 CRL" <;> simp [ht, ht2]
  · by_cases h2 : inform = "der"
    · subst h2; simp
    · by_cases h3 : inform = "base64"
      · subst h3; cases b64ok <;> simp
      · simp [h1, h2, h3]

/-- a CRL is only ever recognised through its PEM armor -/
theorem dispatch_crl_iff (inform : String) (pemType : Option String) (b64ok : Bool) :
    dispatch inform pemType b64ok = .crl ↔ inform = "pem" ∧ pemType = some "X509 CRL" := by
  unfold dispatch
  by_cases h1 : inform = "pem"
  · subst h1
    cases pemType with
    | none => simp
    | some t =>
      by_cases ht : t = "CERTIFICATE"
      · subst ht; simp
      · by_cases ht2 : t = "X509 CRL" <;> simp [ht, ht2]
  · by_cases h2 : inform = "der"
    · subst h2; simp
    · by_cases h3 : inform = "base64"
      · subst h3; cases b64ok <;> simp
      · simp [h1, h2, h3]

/-- **The three encodings of one certificate dispatch identically** (to the certificate parser) -/
theorem encodings_agree : dispatch "pem" (some "CERTIFICATE") false = .cert ∧ dispatch "der" none false = .cert
    ∧ dispatch "base64" none true = .cert := by decide

/-- unknown formats, missing or foreign PEM armor and broken base64 fail -/
theorem fails_closed : dispatch "pem" none true = .fail ∧ dispatch "pem" (some "PRIVATE KEY") true = .fail
    ∧ dispatch "base64" none false = .fail ∧ dispatch "xml" (some "CERTIFICATE") true = .fail := by decide

/-- **what follows the first PEM block plays no part**: a second certificate, a CRL or anything else after it changes neither
    what the input is linted as nor which bytes are linted -/
theorem later_blocks_ignored (b : String × List Nat) (rest rest' : List (String × List Nat)) :
    dispatchBlocks (b :: rest) = dispatchBlocks (b :: rest') := rfl

theorem first_block_decides (t : String) (der : List Nat) (rest : List (String × List Nat)) :
    dispatchBlocks ((t, der) :: rest) = (dispatch "pem" (some t) false, der) := rfl

/-- per-file override: the suffix decides, the second file never inherits the first file's format -/
theorem fileFormat_suffix (flag : String) : fileFormat flag "a.der" = "der" ∧ fileFormat flag "b.pem" = "pem" := by
  constructor <;> rfl

/-- the levels of the summary are exactly info, warn, error, fatal — every level above pass, once, ascending -/
theorem summary_levels : summaryLevels (statusLabelTable.map (·.2)) = [4, 5, 6, 7] := by decide

/-- **The counts in the summary equal the counts of the results**, for every level above pass. -/
theorem summary_counts (results : List Int) :
    summaryTable (statusLabelTable.map (·.2)) results = [(4, results.count 4), (5, results.count 5), (6, results.count 6), (7, results.count 7)] := by
  unfold summaryTable
  rw [summary_levels]
  rfl

theorem summary_counts_spec (results : List Int) (l : Int) (hl : l ∈ [4, 5, 6, 7]) :
    (l, (results.filter (· == l)).length) ∈ summaryTable (statusLabelTable.map (·.2)) results := by
  rw [summary_counts]
  have : (results.filter (· == l)).length = results.count l := by
    simp [List.count_eq_length_filter]
  rw [this]
  simp only [List.mem_cons, List.not_mem_nil, or_false] at hl
  rcases hl with rfl | rfl | rfl | rfl <;> simp

end Zl.C15
