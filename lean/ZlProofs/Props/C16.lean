/-
  C16 — RSA key-quality verdicts are arithmetically exact.
-/
import ZlModel.Rsa
import ZlProofs.Lemmas.Tables
import Mathlib.Tactic.Ring
import Mathlib.Tactic.Linarith
namespace Zl.C16
open Zl

/-! ### bit length -/

theorem bitLen_lt_iff (n k : Nat) (hk : 0 < k) : bitLen n < k ↔ n < 2 ^ (k - 1) := by
  unfold bitLen
  by_cases h0 : n = 0
  · subst h0; simp [hk, Nat.two_pow_pos]
  · simp only [h0, ↓reduceIte]
    rw [← Nat.log2_lt h0]
    omega

/-- **Size lints**: error ⇔ the modulus is shorter than the stated minimum ⇔ N < 2^(k-1). -/
theorem modLessThan_iff (k n : Nat) (hk : 0 < k) : modLessThan k n = Status.error ↔ n < 2 ^ (k - 1) := by
  unfold modLessThan
  rw [← bitLen_lt_iff n k hk]
  by_cases h : bitLen n < k <;> simp [h, Status.error, Status.pass]

theorem mod_lt_2048 (n : Nat) : modLessThan 2048 n = Status.error ↔ n < 2 ^ 2047 := modLessThan_iff 2048 n (by decide)
theorem mod_lt_1024 (n : Nat) : modLessThan 1024 n = Status.error ↔ n < 2 ^ 1023 := modLessThan_iff 1024 n (by decide)
theorem mod_lt_3072 (n : Nat) : modLessThan 3072 n = Status.error ↔ n < 2 ^ 3071 := modLessThan_iff 3072 n (by decide)
/-- and otherwise the verdict is pass: nothing else is ever reported -/
theorem modLessThan_total (k n : Nat) : modLessThan k n = Status.error ∨ modLessThan k n = Status.pass := by
  unfold modLessThan; split <;> simp

/-- bit length not a multiple of 8 -/
theorem modDiv8_iff (n : Nat) : modDiv8 n = Status.error ↔ bitLen n % 8 ≠ 0 := by
  unfold modDiv8
  by_cases h : bitLen n % 8 = 0 <;> simp [h, Status.error, Status.pass]

/-- even modulus -/
theorem modNotOdd_iff (n : Nat) : modNotOdd n = Status.warn ↔ 2 ∣ n := by
  unfold modNotOdd
  have : n % 2 = 0 ∨ n % 2 = 1 := by omega
  rcases this with h | h <;> simp [h, Status.warn, Status.pass, Nat.dvd_iff_mod_eq_zero]

/-! ### exponents -/

theorem expNotOdd_iff (e : Nat) : expNotOdd e = Status.error ↔ 2 ∣ e := by
  unfold expNotOdd
  have : e % 2 = 0 ∨ e % 2 = 1 := by omega
  rcases this with h | h <;> simp [h, Status.error, Status.pass, Nat.dvd_iff_mod_eq_zero]

theorem expTooSmall_iff (e : Nat) : expTooSmall e = Status.error ↔ e < 3 := by
  unfold expTooSmall
  by_cases h : e ≥ 3 <;> simp [h, Status.error, Status.pass] <;> omega

theorem expIsOne_iff (e : Nat) : expIsOne e = Status.error ↔ e = 1 := by
  unfold expIsOne
  by_cases h : e = 1 <;> simp [h, Status.error, Status.pass]

/-- for every exponent the parser can deliver (a positive Go int, E < 2^63) the upper bound 2^256 is
    unreachable, so the lint decides exactly `E < 65537` -/
theorem expNotInRange_iff (e : Nat) (he : e < 2 ^ 63) : expNotInRange e = Status.warn ↔ e < 65537 := by
  unfold expNotInRange
  have h256 : e < 2 ^ 256 := Nat.lt_of_lt_of_le he (Nat.pow_le_pow_right (by decide) (by decide))
  by_cases h : e ≥ 65537 <;> simp [h, h256, Status.warn, Status.pass] <;> omega

/-! ### small factors -/

open Generated

/-- every table entry is a divisor candidate in 2..751 -/
theorem table_range : primes.all (fun p => decide (2 ≤ p) && decide (p < 752)) = true := by decide +kernel

/-- every number 2..751 has a divisor in the table (so the table misses no prime below 752) -/
theorem table_covers : (List.range 752).all (fun d => decide (d < 2) || primes.any (fun p => d % p == 0)) = true := by decide +kernel

/-- the table holds only primes, each once -/
def isPrimeB (p : Nat) : Bool := decide (2 ≤ p) && (List.range p).all (fun d => decide (d < 2) || decide (d * d > p) || p % d != 0)
theorem table_entries_prime : primes.all isPrimeB = true ∧ strictSorted (msort primes) = true := by decide +kernel

/-- **A factor below 752**: warn ⇔ some d with 2 ≤ d < 752 divides the modulus. -/
theorem modSmallFactor_iff (n : Nat) : modSmallFactor primes n = Status.warn ↔ ∃ d, 2 ≤ d ∧ d < 752 ∧ d ∣ n := by
  unfold modSmallFactor primeNoSmallerThan752
  constructor
  · intro h
    have hnot : ¬ (primes.all (fun p => n % p != 0) = true) := by
      intro hall; simp [hall, Status.warn, Status.pass] at h
    simp only [List.all_eq_true, bne_iff_ne, ne_eq, not_forall, Decidable.not_not] at hnot
    obtain ⟨p, hp, hmod⟩ := hnot
    have hr := List.all_eq_true.mp table_range p hp
    simp only [Bool.and_eq_true, decide_eq_true_eq] at hr
    exact ⟨p, hr.1, hr.2, Nat.dvd_of_mod_eq_zero hmod⟩
  · rintro ⟨d, h2, h752, hd⟩
    have hc := List.all_eq_true.mp table_covers d (List.mem_range.mpr h752)
    simp only [Bool.or_eq_true, decide_eq_true_eq, List.any_eq_true, beq_iff_eq] at hc
    rcases hc with hlt | ⟨p, hp, hpd⟩
    · omega
    · have hpn : n % p = 0 := Nat.mod_eq_zero_of_dvd (Nat.dvd_trans (Nat.dvd_of_mod_eq_zero hpd) hd)
      have : ¬ (primes.all (fun p => n % p != 0) = true) := by
        intro hall
        have := List.all_eq_true.mp hall p hp
        simp [hpn] at this
      simp [this, Status.warn]

/-! ### Fermat factorisation -/

theorem sqrt_mul_self (k : Nat) : Nat.sqrt (k * k) = k := by
  have h1 := Nat.sqrt_le (k * k)
  have h2 := Nat.lt_succ_sqrt (k * k)
  have a : Nat.sqrt (k * k) ≤ k := Nat.mul_self_le_mul_self_iff.mp h1
  have b : k < Nat.sqrt (k * k) + 1 := Nat.mul_self_lt_mul_self_iff.mp h2
  omega

/-- the perfect-square test of the loop is exact -/
theorem isSquare_iff (m : Nat) : (Nat.sqrt m * Nat.sqrt m == m) = true ↔ ∃ b, b * b = m := by
  constructor
  · intro h; exact ⟨Nat.sqrt m, by simpa using h⟩
  · rintro ⟨b, rfl⟩; simp [sqrt_mul_self]

/-- **Soundness**: any factorisation the loop reports multiplies back to the modulus (for every
    starting point whose square is at least `n`, which holds along the whole run). -/
theorem fermatLoop_sound (n : Nat) : ∀ (r a : Nat), n ≤ a * a → ∀ p q, fermatLoop n r a = some (p, q) → p * q = n := by
  intro r
  induction r with
  | zero => intro a _ p q h; simp [fermatLoop] at h
  | succ r ih =>
    intro a ha p q h
    simp only [fermatLoop] at h
    split at h
    · rename_i hsq
      simp only [Option.some.injEq, Prod.mk.injEq] at h
      obtain ⟨rfl, rfl⟩ := h
      have hb : Nat.sqrt (a * a - n) * Nat.sqrt (a * a - n) = a * a - n := by simpa using hsq
      rw [← Nat.mul_self_sub_mul_self_eq, hb]
      omega
    · exact ih (a + 1) (by nlinarith) p q h

theorem start_sq_ge (n : Nat) : n ≤ (Nat.sqrt n + 1) * (Nat.sqrt n + 1) := Nat.le_of_lt (Nat.lt_succ_sqrt n)

theorem fermat_sound (n r p q : Nat) (h : fermat n r = some (p, q)) : p * q = n :=
  fermatLoop_sound n r _ (start_sq_ge n) p q h

/-- the number under the square root is never negative: `a² ≥ n` at every step (so `big.Int.Sqrt`
    cannot panic — used by C02) -/
theorem fermat_no_negative_sqrt (n i : Nat) : n ≤ (Nat.sqrt n + 1 + i) * (Nat.sqrt n + 1 + i) := by
  have := start_sq_ge n
  nlinarith

/-- the loop succeeds as soon as one of its `r` candidates is a perfect-square hit -/
theorem fermatLoop_complete (n : Nat) : ∀ (r a i : Nat), i < r → (∃ b, b * b = (a + i) * (a + i) - n) → (fermatLoop n r a).isSome = true := by
  intro r
  induction r with
  | zero => intro a i hi; omega
  | succ r ih =>
    intro a i hi hsq
    simp only [fermatLoop]
    split
    · rfl
    · rename_i hns
      cases i with
      | zero => exfalso; apply hns; simpa using (isSquare_iff _).mpr hsq
      | succ i => exact ih (a + 1) i (by omega) (by obtain ⟨b, hb⟩ := hsq; exact ⟨b, by rw [hb]; congr 1 <;> ring⟩)

/-- **Completeness**: a product of two distinct odd primes (indeed any two odd numbers p < q) whose
    mean lies within `r` steps above ⌊√n⌋+1 is factored — the lint reports the error. -/
theorem fermat_complete (n p q r : Nat) (hn : n = p * q) (hpq : p < q) (hp : p % 2 = 1) (hq : q % 2 = 1)
    (hr : (p + q) / 2 < Nat.sqrt n + 1 + r) : (fermat n r).isSome = true := by
  -- a* = (p+q)/2, b* = (q-p)/2, a*² - n = b*²
  obtain ⟨s, hs⟩ : ∃ s, p + q = 2 * s := ⟨(p + q) / 2, by omega⟩
  obtain ⟨d, hd⟩ : ∃ d, q - p = 2 * d := ⟨(q - p) / 2, by omega⟩
  have hq' : q = s + d := by omega
  have hp' : p = s - d := by omega
  have hds : d ≤ s := by omega
  have hd1 : 1 ≤ d := by omega
  have hsq : s * s = n + d * d := by
    subst hn
    have : p + d = s := by omega
    subst this
    rw [hq']; ring
  -- a* is above the starting point
  have hstart : Nat.sqrt n + 1 ≤ s := by
    have h1 : n < s * s := by nlinarith
    have h2 := Nat.sqrt_le n
    have : Nat.sqrt n < s := by
      by_contra hcon
      have : s ≤ Nat.sqrt n := by omega
      have := Nat.mul_self_le_mul_self this
      omega
    omega
  have hs2 : (p + q) / 2 = s := by omega
  unfold fermat
  apply fermatLoop_complete n r (Nat.sqrt n + 1) (s - (Nat.sqrt n + 1)) (by omega)
  refine ⟨d, ?_⟩
  have : Nat.sqrt n + 1 + (s - (Nat.sqrt n + 1)) = s := by omega
  rw [this, hsq]; omega

/-- the verdict: error exactly when the loop finds a factorisation -/
theorem fermatVerdict_iff (n r : Nat) : fermatVerdict n r = Status.error ↔ ∃ p q, fermat n r = some (p, q) ∧ p * q = n := by
  unfold fermatVerdict
  cases h : fermat n r with
  | none => simp [Status.error, Status.pass]
  | some pq =>
    obtain ⟨p, q⟩ := pq
    simp only [Option.isSome_some, ↓reduceIte, true_iff]
    exact ⟨p, q, rfl, fermat_sound n r p q h⟩

/-- non-vacuity / examples (tests): 2^2047 is the smallest 2048-bit number; 35 = 5·7 is found in one round -/
example : modLessThan 2048 (2 ^ 2047) = Status.pass ∧ modLessThan 2048 (2 ^ 2047 - 1) = Status.error := by
  constructor
  · have := (mod_lt_2048 (2 ^ 2047)).not.mpr (by omega)
    rcases modLessThan_total 2048 (2 ^ 2047) with h | h
    · exact absurd h this
    · exact h
  · exact (mod_lt_2048 _).mpr (by have := Nat.two_pow_pos 2047; omega)
example : (fermat 35 6).isSome = true := fermat_complete 35 5 7 6 rfl (by decide) rfl rfl (by omega)

end Zl.C16
