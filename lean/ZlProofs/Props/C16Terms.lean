/-
  C16Terms — the arithmetic theorems of C16, restated about the rule terms that the translator regenerates
  from the Go source of the RSA lints on every run (`Generated.bodyRules`), not about a hand-written copy.

  For each RSA key-quality lint inside the lint-logic fragment (eleven of the fourteen; the exponent-range lint
  and the Fermat lint use their receiver and stay with `Props/C16.lean` + the `rsa` correspondence):

    1. `…_body` (kernel evaluation over the regenerated table): the lint's `Execute`, as translated from the
       source that is in /repo now, *is* the expected term (threshold, comparison, statuses);
    2. `…_exact`: on every view whose parsed key is an RSA key `(n, e)`, that term answers `error` / `warn`
       exactly when the arithmetic condition of the property holds — through the unbounded theorems of
       `Props/C16.lean` (`bitLen_lt_iff`, `modSmallFactor_iff` over the regenerated prime table, …).

  A change of a threshold, of a comparison operator, of a returned status or of the guard in one of these
  bodies changes the regenerated term and (1) stops checking.
-/
import ZlProofs.Props.Bodies
import ZlProofs.Props.C16
namespace Zl.C16Terms
open Zl Zl.LL Zl.Bodies Zl.Generated

def kt : Nat := fieldId "PublicKey#type"
def fN : Nat := fieldId "PublicKey#rsa.N"
def fE : Nat := fieldId "PublicKey#rsa.E"

/-- the three pseudo fields exist in the regenerated field table and are distinct -/
theorem key_fields_present : kt < bodyFieldNames.length ∧ fN < bodyFieldNames.length ∧ fE < bodyFieldNames.length
    ∧ kt ≠ fN ∧ kt ≠ fE ∧ fN ≠ fE := by decide +kernel

/-- a view of a certificate whose parsed public key is `&rsa.PublicKey{N: n, E: e}` -/
structure RsaView (v : View) (n : Nat) (e : Int) : Prop where
  tag : v.int kt = 1
  modulus : v.int fN = (n : Int)
  exponent : v.int fE = e

def bodyOf (name : String) : Option Stmt := (ruleNamed name).map (·.body)

/-! ### expected terms -/

/-- `key := c.PublicKey.(*rsa.PublicKey); if key.N.BitLen() < k { Error } else { Pass }` -/
def sizeBody (k : Int) : Stmt :=
  .assertInt kt 1 (.ite (.icmp (.bitLen (.kfld fN kt 1)) .lt (.lit k)) (.ret 6) (.ret 3))

/-- `key, ok := …; if !ok { return other }; if key.N.BitLen() < k { Error }; Pass` -/
def sizeBodyOk (other : Status) (k : Int) : Stmt :=
  .ite (.not (.int kt .eq 1)) (.ret other) (.ite (.icmp (.bitLen (.kfld fN kt 1)) .lt (.lit k)) (.ret 6) (.ret 3))

theorem size_bodies :
    bodyOf "e_rsa_mod_less_than_2048_bits" = some (sizeBody 2048)
    ∧ bodyOf "e_old_root_ca_rsa_mod_less_than_2048_bits" = some (sizeBody 2048)
    ∧ bodyOf "e_old_sub_ca_rsa_mod_less_than_1024_bits" = some (sizeBody 1024)
    ∧ bodyOf "e_old_sub_cert_rsa_mod_less_than_1024_bits" = some (sizeBody 1024)
    ∧ bodyOf "e_mp_modulus_must_be_2048_bits_or_more" = some (sizeBodyOk 7 2048)
    ∧ bodyOf "e_cs_rsa_key_size" = some (sizeBodyOk 1 3072) := by decide +kernel

theorem bitLen_cast_lt (n k : Nat) : (((bitLen n : Nat) : Int) < (k : Int)) ↔ bitLen n < k := by omega

theorem sizeBody_eval (env : Env) (v : View) (n : Nat) (e : Int) (h : RsaView v n e) (k : Nat) :
    evalS env v (sizeBody k) = some (modLessThan k n) := by
  have hk : (v.int kt == 1) = true := by simp [h.tag]
  simp only [sizeBody, evalS, evalC, IExp.eval, hk, if_true, h.modulus, Option.map_some, Int.natAbs_natCast, Cmp.eval, modLessThan]
  by_cases hlt : bitLen n < k
  · have : (((bitLen n : Nat) : Int) < (k : Int)) := (bitLen_cast_lt n k).mpr hlt
    simp [hlt, this, Status.error]
  · have : ¬ (((bitLen n : Nat) : Int) < (k : Int)) := fun c => hlt ((bitLen_cast_lt n k).mp c)
    simp [hlt, this, Status.pass]

theorem sizeBodyOk_eval (env : Env) (v : View) (n : Nat) (e : Int) (h : RsaView v n e) (other : Status) (k : Nat) :
    evalS env v (sizeBodyOk other k) = some (modLessThan k n) := by
  have hk : (v.int kt == 1) = true := by simp [h.tag]
  simp only [sizeBodyOk, evalS, evalC, IExp.eval, Cmp.eval, hk, if_true, h.tag, h.modulus, Option.map_some, Int.natAbs_natCast, modLessThan]
  by_cases hlt : bitLen n < k
  · have : (((bitLen n : Nat) : Int) < (k : Int)) := (bitLen_cast_lt n k).mpr hlt
    simp [hlt, this, Status.error]
  · have : ¬ (((bitLen n : Nat) : Int) < (k : Int)) := fun c => hlt ((bitLen_cast_lt n k).mp c)
    simp [hlt, this, Status.pass]

/-- **`e_rsa_mod_less_than_2048_bits`, as it reads in the source now, reports an error exactly when N < 2^2047** -/
theorem rsa_mod_2048_exact (env : Env) (v : View) (n : Nat) (e : Int) (h : RsaView v n e) (b : Stmt)
    (hb : bodyOf "e_rsa_mod_less_than_2048_bits" = some b) : evalS env v b = some Status.error ↔ n < 2 ^ 2047 := by
  rw [size_bodies.1] at hb; cases hb
  rw [show sizeBody 2048 = sizeBody ((2048 : Nat) : Int) from rfl, sizeBody_eval env v n e h 2048, Option.some.injEq]; exact C16.mod_lt_2048 n

theorem old_root_2048_exact (env : Env) (v : View) (n : Nat) (e : Int) (h : RsaView v n e) (b : Stmt)
    (hb : bodyOf "e_old_root_ca_rsa_mod_less_than_2048_bits" = some b) : evalS env v b = some Status.error ↔ n < 2 ^ 2047 := by
  rw [size_bodies.2.1] at hb; cases hb
  rw [show sizeBody 2048 = sizeBody ((2048 : Nat) : Int) from rfl, sizeBody_eval env v n e h 2048, Option.some.injEq]; exact C16.mod_lt_2048 n

theorem old_sub_ca_1024_exact (env : Env) (v : View) (n : Nat) (e : Int) (h : RsaView v n e) (b : Stmt)
    (hb : bodyOf "e_old_sub_ca_rsa_mod_less_than_1024_bits" = some b) : evalS env v b = some Status.error ↔ n < 2 ^ 1023 := by
  rw [size_bodies.2.2.1] at hb; cases hb
  rw [show sizeBody 1024 = sizeBody ((1024 : Nat) : Int) from rfl, sizeBody_eval env v n e h 1024, Option.some.injEq]; exact C16.mod_lt_1024 n

theorem old_sub_cert_1024_exact (env : Env) (v : View) (n : Nat) (e : Int) (h : RsaView v n e) (b : Stmt)
    (hb : bodyOf "e_old_sub_cert_rsa_mod_less_than_1024_bits" = some b) : evalS env v b = some Status.error ↔ n < 2 ^ 1023 := by
  rw [size_bodies.2.2.2.1] at hb; cases hb
  rw [show sizeBody 1024 = sizeBody ((1024 : Nat) : Int) from rfl, sizeBody_eval env v n e h 1024, Option.some.injEq]; exact C16.mod_lt_1024 n

theorem mp_2048_exact (env : Env) (v : View) (n : Nat) (e : Int) (h : RsaView v n e) (b : Stmt)
    (hb : bodyOf "e_mp_modulus_must_be_2048_bits_or_more" = some b) : evalS env v b = some Status.error ↔ n < 2 ^ 2047 := by
  rw [size_bodies.2.2.2.2.1] at hb; cases hb
  rw [show sizeBodyOk 7 2048 = sizeBodyOk 7 ((2048 : Nat) : Int) from rfl, sizeBodyOk_eval env v n e h 7 2048, Option.some.injEq]; exact C16.mod_lt_2048 n

theorem cs_3072_exact (env : Env) (v : View) (n : Nat) (e : Int) (h : RsaView v n e) (b : Stmt)
    (hb : bodyOf "e_cs_rsa_key_size" = some b) : evalS env v b = some Status.error ↔ n < 2 ^ 3071 := by
  rw [size_bodies.2.2.2.2.2] at hb; cases hb
  rw [show sizeBodyOk 1 3072 = sizeBodyOk 1 ((3072 : Nat) : Int) from rfl, sizeBodyOk_eval env v n e h 1 3072, Option.some.injEq]; exact C16.mod_lt_3072 n

/-! ### length divisible by 8, parity, small factors -/

def div8Body : Stmt :=
  .ite (.not (.int kt .eq 1)) (.ret 7) (.ite (.icmp (.tmod (.bitLen (.kfld fN kt 1)) 8) .ne (.lit 0)) (.ret 6) (.ret 3))
def notOddBody : Stmt :=
  .assertInt kt 1 (.ite (.icmp (.emod (.kfld fN kt 1) 2) .eq (.lit 1)) (.ret 3) (.ret 5))
def smallFactorBody : Stmt :=
  .assertInt kt 1 (.ite (.primes752 (.kfld fN kt 1)) (.ret 3) (.ret 5))

theorem modulus_bodies :
    bodyOf "e_mp_modulus_must_be_divisible_by_8" = some div8Body
    ∧ bodyOf "w_rsa_mod_not_odd" = some notOddBody
    ∧ bodyOf "w_rsa_mod_factors_smaller_than_752" = some smallFactorBody := by decide +kernel

theorem div8_exact (env : Env) (v : View) (n : Nat) (e : Int) (h : RsaView v n e) (b : Stmt)
    (hb : bodyOf "e_mp_modulus_must_be_divisible_by_8" = some b) : evalS env v b = some Status.error ↔ bitLen n % 8 ≠ 0 := by
  rw [modulus_bodies.1] at hb; cases hb
  have hk : (v.int kt == 1) = true := by simp [h.tag]
  simp only [div8Body, evalS, evalC, IExp.eval, Cmp.eval, hk, if_true, h.tag, h.modulus, Option.map_some, Int.natAbs_natCast]
  have hm : Int.tmod ((bitLen n : Nat) : Int) 8 = ((bitLen n % 8 : Nat) : Int) := by
    rw [Int.tmod_eq_emod_of_nonneg (by omega)]; omega
  by_cases h0 : bitLen n % 8 = 0
  · have hb : (Int.tmod ((bitLen n : Nat) : Int) 8 != 0) = false := by rw [hm]; simp [h0]
    simp [hb, h0, Status.error]
  · have hb : (Int.tmod ((bitLen n : Nat) : Int) 8 != 0) = true := by
      rw [hm]; simp only [bne_iff_ne, ne_eq]; omega
    simp [hb, h0, Status.error]

theorem notOdd_exact (env : Env) (v : View) (n : Nat) (e : Int) (h : RsaView v n e) (b : Stmt)
    (hb : bodyOf "w_rsa_mod_not_odd" = some b) : evalS env v b = some Status.warn ↔ 2 ∣ n := by
  rw [modulus_bodies.2.1] at hb; cases hb
  have hk : (v.int kt == 1) = true := by simp [h.tag]
  simp only [notOddBody, evalS, evalC, IExp.eval, Cmp.eval, hk, if_true, h.modulus, Option.map_some]
  have : n % 2 = 0 ∨ n % 2 = 1 := by omega
  rcases this with h2 | h2
  · have : ((n : Int) % 2) = 0 := by omega
    simp [this, Status.warn, Nat.dvd_iff_mod_eq_zero, h2]
  · have : ((n : Int) % 2) = 1 := by omega
    simp [this, Status.warn, Nat.dvd_iff_mod_eq_zero, h2]

/-- **`w_rsa_mod_factors_smaller_than_752`, as translated from the source and evaluated over the regenerated prime
    table, warns exactly when the modulus has a divisor d with 2 ≤ d < 752** -/
theorem smallFactor_exact (env : Env) (v : View) (n : Nat) (e : Int) (h : RsaView v n e) (b : Stmt)
    (hb : bodyOf "w_rsa_mod_factors_smaller_than_752" = some b) :
    evalS env v b = some Status.warn ↔ ∃ d, 2 ≤ d ∧ d < 752 ∧ d ∣ n := by
  rw [modulus_bodies.2.2] at hb; cases hb
  have hk : (v.int kt == 1) = true := by simp [h.tag]
  simp only [smallFactorBody, evalS, evalC, IExp.eval, hk, if_true, h.modulus, Option.map_some, Int.natAbs_natCast]
  rw [← C16.modSmallFactor_iff n]
  unfold modSmallFactor
  cases hp : primeNoSmallerThan752 primes n <;> simp [Status.warn, Status.pass]

/-! ### exponents -/

def expOddBody : Stmt :=
  .assertInt kt 1 (.ite (.icmp (.tmod (.kfld fE kt 1) 2) .eq (.lit 1)) (.ret 3) (.ret 6))
def expSmallBody : Stmt :=
  .assertInt kt 1 (.ite (.icmp (.kfld fE kt 1) .ge (.lit 3)) (.ret 3) (.ret 6))
def expOneBody : Stmt :=
  .ite (.not (.int kt .eq 1)) (.ret 7) (.ite (.icmp (.kfld fE kt 1) .eq (.lit 1)) (.ret 6) (.ret 3))
def expNegBody : Stmt :=
  .assertInt kt 1 (.ite (.icmp (.kfld fE kt 1) .lt (.lit 0)) (.ret 6) (.ret 3))

theorem exponent_bodies :
    bodyOf "e_rsa_public_exponent_not_odd" = some expOddBody
    ∧ bodyOf "e_rsa_public_exponent_too_small" = some expSmallBody
    ∧ bodyOf "e_mp_exponent_cannot_be_one" = some expOneBody
    ∧ bodyOf "e_rsa_exp_negative" = some expNegBody := by decide +kernel

/-- for every exponent the parser delivers (`E ≥ 0`): error exactly when E is even. (Go's `%` truncates: a negative
    odd E would also be reported, `-1 ≠ 1` — `expOdd_negative`.) -/
theorem expOdd_exact (env : Env) (v : View) (n : Nat) (e : Nat) (h : RsaView v n e) (b : Stmt)
    (hb : bodyOf "e_rsa_public_exponent_not_odd" = some b) : evalS env v b = some Status.error ↔ 2 ∣ e := by
  rw [exponent_bodies.1] at hb; cases hb
  have hk : (v.int kt == 1) = true := by simp [h.tag]
  simp only [expOddBody, evalS, evalC, IExp.eval, Cmp.eval, hk, if_true, h.exponent, Option.map_some]
  have hm : Int.tmod (e : Int) 2 = ((e % 2 : Nat) : Int) := by
    rw [Int.tmod_eq_emod_of_nonneg (by omega)]; omega
  have : e % 2 = 0 ∨ e % 2 = 1 := by omega
  rcases this with h2 | h2 <;> simp [hm, h2, Status.error, Nat.dvd_iff_mod_eq_zero]

theorem expOdd_negative (env : Env) (v : View) (n : Nat) (e : Int) (h : RsaView v n e) (he : e < 0) :
    evalS env v expOddBody = some Status.error := by
  have hk : (v.int kt == 1) = true := by simp [h.tag]
  simp only [expOddBody, evalS, evalC, IExp.eval, Cmp.eval, hk, if_true, h.exponent, Option.map_some]
  have hne : Int.tmod e 2 ≠ 1 := by
    have h1 : Int.tmod (-e) 2 = -(Int.tmod e 2) := Int.neg_tmod e 2
    have h2 := Int.tmod_nonneg (a := -e) 2 (by omega)
    omega
  have hb : (Int.tmod e 2 == 1) = false := by simp [hne]
  simp [hb, Status.error]

theorem expSmall_exact (env : Env) (v : View) (n : Nat) (e : Int) (h : RsaView v n e) (b : Stmt)
    (hb : bodyOf "e_rsa_public_exponent_too_small" = some b) : evalS env v b = some Status.error ↔ e < 3 := by
  rw [exponent_bodies.2.1] at hb; cases hb
  have hk : (v.int kt == 1) = true := by simp [h.tag]
  simp only [expSmallBody, evalS, evalC, IExp.eval, Cmp.eval, hk, if_true, h.exponent]
  by_cases h3 : e ≥ 3 <;> simp [h3, Status.error] <;> omega

theorem expOne_exact (env : Env) (v : View) (n : Nat) (e : Int) (h : RsaView v n e) (b : Stmt)
    (hb : bodyOf "e_mp_exponent_cannot_be_one" = some b) : evalS env v b = some Status.error ↔ e = 1 := by
  rw [exponent_bodies.2.2.1] at hb; cases hb
  have hk : (v.int kt == 1) = true := by simp [h.tag]
  simp only [expOneBody, evalS, evalC, IExp.eval, Cmp.eval, hk, if_true, h.tag, h.exponent]
  by_cases h1 : e = 1
  · simp [h1, Status.error]
  · have hb : (e == 1) = false := by simp [h1]
    simp [hb, h1, Status.error]

theorem expNeg_exact (env : Env) (v : View) (n : Nat) (e : Int) (h : RsaView v n e) (b : Stmt)
    (hb : bodyOf "e_rsa_exp_negative" = some b) : evalS env v b = some Status.error ↔ e < 0 := by
  rw [exponent_bodies.2.2.2] at hb; cases hb
  have hk : (v.int kt == 1) = true := by simp [h.tag]
  simp only [expNegBody, evalS, evalC, IExp.eval, Cmp.eval, hk, if_true, h.exponent]
  by_cases h0 : e < 0 <;> simp [h0, Status.error]

/-! ### the guards: every one of these lints applies only to certificates whose key is an RSA key, or answers for
    other keys without touching the key (no panic — already `translated_rules_never_panic`) -/

/-- non-vacuity: a view with an RSA key exists, and on it the 2048-bit rule separates 2^2047 - 1 from 2^2047 -/
example : RsaView { ints := [(kt, 1), (fN, ((2 ^ 2047 : Nat) : Int)), (fE, 65537)] } (2 ^ 2047) 65537 := by
  refine ⟨?_, ?_, ?_⟩ <;> simp [View.int, lookup] <;> decide +kernel

end Zl.C16Terms
