/-
  C17 — Verdicts do not depend on the order of SAN entries or of extensions.

  (1) Order theorems for the scan shapes: a first-match scan is permutation-invariant iff all its
  in-loop verdicts coincide; any-finding and multiset shapes always are. (2) Which lints return more
  than one distinct verdict from inside a loop over a name list is regenerated from the source (SSA:
  statuses of the returns that leave a loop); by (1) exactly those are order-dependent, and they must
  be the committed known findings — no more (a new one fails), no fewer (a stale entry fails).

  Partial: that a lint's loop has the first-match shape is read off the SSA loop structure by the
  extractor and validated by the permutation search on the real lints; it is not derived in Lean from
  the Go body. Extension order: lints look extensions up by OID through a map (util.GetExtFromCert /
  IsExtInCert); the two lints that range over c.Extensions themselves are reviewed below.
-/
import ZlModel.Names
import ZlModel.Scan
import ZlModel.Generated.Registry
import ZlModel.Generated.PanicSites
namespace Zl.C17
open Zl Generated

/-! ### (1) order theorems -/

theorem scan_eq_of_uniform {α : Type} (f : α → Option Status) (dflt s : Status)
    (hu : ∀ x t, f x = some t → t = s) (l : List α) :
    scan f dflt l = if l.any (fun x => (f x).isSome) then s else dflt := by
  induction l with
  | nil => simp [scan]
  | cons x xs ih =>
    unfold scan
    cases hx : f x with
    | none => simp [hx, ih]
    | some t => simp [hx, hu x t hx]

/-- **A first-match scan whose in-loop verdicts all coincide does not depend on the order.** -/
theorem scan_perm {α : Type} (f : α → Option Status) (dflt : Status)
    (hu : ∀ x y s t, f x = some s → f y = some t → s = t) {l l' : List α} (hp : l.Perm l') :
    scan f dflt l = scan f dflt l' := by
  by_cases h : ∃ x ∈ l, (f x).isSome
  · obtain ⟨x, hx, hs⟩ := h
    obtain ⟨s, hs⟩ := Option.isSome_iff_exists.mp hs
    have hu' : ∀ y t, f y = some t → t = s := fun y t hy => (hu x y s t hs hy).symm
    rw [scan_eq_of_uniform f dflt s hu' l, scan_eq_of_uniform f dflt s hu' l']
    have : l.any (fun x => (f x).isSome) = l'.any (fun x => (f x).isSome) := by
      apply Bool.eq_iff_iff.mpr
      simp only [List.any_eq_true]
      constructor
      · rintro ⟨y, hy, h⟩; exact ⟨y, hp.mem_iff.mp hy, h⟩
      · rintro ⟨y, hy, h⟩; exact ⟨y, hp.mem_iff.mpr hy, h⟩
    rw [this]
  · have hnone : ∀ (m : List α), (∀ x ∈ m, f x = none) → scan f dflt m = dflt := by
      intro m; induction m with
      | nil => intro _; rfl
      | cons y ys ih => intro hm; simp [scan, hm y (by simp)]; exact ih (fun x hx => hm x (by simp [hx]))
    have h1 : ∀ x ∈ l, f x = none := by
      intro x hx; cases hfx : f x with
      | none => rfl
      | some t => exact absurd ⟨x, hx, by simp [hfx]⟩ h
    rw [hnone l h1, hnone l' (fun x hx => h1 x (hp.mem_iff.mpr hx))]

/-- **Converse by witness**: two elements with different in-loop verdicts make the scan depend on their order. -/
theorem scan_not_perm {α : Type} (f : α → Option Status) (dflt : Status) (x y : α) (s t : Status)
    (hx : f x = some s) (hy : f y = some t) (hne : s ≠ t) :
    scan f dflt [x, y] ≠ scan f dflt [y, x] := by
  simp [scan, hx, hy, hne]

/-- any-finding shapes never depend on the order -/
theorem anyFinding_perm {α : Type} (bad : α → Bool) (finding : Status) {l l' : List α} (hp : l.Perm l') :
    anyFinding bad finding l = anyFinding bad finding l' := by
  unfold anyFinding
  have : l.any bad = l'.any bad := by
    apply Bool.eq_iff_iff.mpr
    simp only [List.any_eq_true]
    constructor
    · rintro ⟨y, hy, h⟩; exact ⟨y, hp.mem_iff.mp hy, h⟩
    · rintro ⟨y, hy, h⟩; exact ⟨y, hp.mem_iff.mpr hy, h⟩
  rw [this]

/-- duplicate detection is a function of the multiset -/
theorem hasDuplicate_perm {α : Type} [DecidableEq α] {l l' : List α} (hp : l.Perm l') : hasDuplicate l = hasDuplicate l' := by
  unfold hasDuplicate
  apply Bool.eq_iff_iff.mpr
  simp only [List.any_eq_true, decide_eq_true_eq]
  constructor
  · rintro ⟨x, hx, hc⟩; exact ⟨x, hp.mem_iff.mp hx, by rw [← hp.count_eq]; exact hc⟩
  · rintro ⟨x, hx, hc⟩; exact ⟨x, hp.mem_iff.mpr hx, by rw [hp.count_eq]; exact hc⟩

/-! ### (2) the regenerated in-loop verdict sets -/

def fieldIdx (name : String) : Option Nat := (fieldNames.zipIdx.find? (fun p => p.1 == name)).map (·.2)

/-- the order-carrying name lists of a certificate -/
def nameListFields : List String :=
  [ "Certificate.DNSNames", "Certificate.IPAddresses", "Certificate.URIs", "Certificate.EmailAddresses", "Certificate.OtherNames",
    "Certificate.DirectoryNames", "Certificate.EDIPartyNames", "Certificate.RegisteredIDs", "Certificate.GetParsedDNSNames",
    "Certificate.IANDNSNames", "Certificate.IANURIs", "Certificate.IANEmailAddresses" ]

def nameListIdx : List Nat := nameListFields.filterMap fieldIdx

def readsNameList (r : RegInfo) : Bool := r.reads.any (fun i => nameListIdx.contains i) || r.objMethods.any (fun i => nameListIdx.contains i)

def distinctVerdicts : List Int → List Int
  | [] => []
  | a :: rest => if rest.contains a then distinctVerdicts rest else a :: distinctVerdicts rest

/-- loops that matter for SAN order: loops attributed to a name-list field, and unattributed loops
    ("loop@n") of lints that read a name list -/
def loopOverNames (r : RegInfo) (fld : Nat) : Bool :=
  nameListIdx.contains fld || (readsNameList r && match fieldNames[fld]? with
    | some n => n.toList.take 5 == "loop@".toList
    | none => false)

/-- a lint that returns two different verdicts from inside a loop over a name list: by
    `scan_not_perm` its result depends on the order of the list -/
def orderSensitive (r : RegInfo) : Bool :=
  r.loopStatuses.any (fun p => loopOverNames r p.1 && (distinctVerdicts p.2).length ≥ 2)

/-- **Every lint in the tree that reads a name list returns at most one distinct verdict from inside
    its loops** — hence, by `scan_perm`, does not depend on the order — **except exactly the committed
    known findings.** -/
theorem class_table_total : registrations.all (fun r => !orderSensitive r || r.knownOrder) = true := by decide +kernel

/-! ### loop-carried state (F13)

A loop whose iterations look at their own element only cannot care about the order of the list. What can make a rule
order-sensitive is a value that survives from one iteration to the next. The extractor lists every such value (header
φ-nodes and stores through variables declared outside the loop) in every function reachable from a lint, with the way it
is updated; everything that is not a flag (one constant), a counter or a collected list must be in the committed review
for the present text of its function. -/

/-- **No unreviewed order-carrying state in any loop reachable from a lint.** -/
theorem loop_state_reviewed :
    Generated.loopState.all (fun s => s.2.2 != 3 || Generated.loopStateReviewed.contains (s.1, s.2.1)) = true := by decide +kernel

/-- the review holds nothing stale -/
theorem loop_state_review_not_stale :
    Generated.loopStateReviewed.all (fun r => Generated.loopState.any (fun s => s.1 == r.1 && s.2.1 == r.2 && s.2.2 == 3)) = true := by decide +kernel

/-- the census sees loops (the statement is not about the empty list) -/
theorem loop_state_nonempty : decide (30 < Generated.loopState.length) = true := by decide +kernel

/-- the known-findings list holds nothing stale -/
theorem known_findings_not_stale : registrations.all (fun r => !r.knownOrder || orderSensitive r) = true := by decide +kernel

/-- lints that range over `c.Extensions` themselves (all others reach extensions through the OID-keyed
    map): reviewed — each looks for the single extension with a given OID, so without duplicated
    extensions the position of that extension does not matter -/
def reviewedExtensionRangers : List String :=
  [ "e_aia_must_contain_permitted_access_method",   -- finds the AIA extension by OID
    "e_crlissuer_must_not_be_present_in_cdp",        -- finds the CRL distribution points extension by OID
    "e_cabf_org_identifier_psd_vat_has_state",       -- finds the CABF organization identifier extension by OID
    "e_empty_sct_list",                              -- finds the SCT list extension by OID
    "e_cert_extensions_version_not_3",               -- len(c.Extensions) only
    "e_ext_duplicate_extension" ]                    -- builds the set of OIDs (a function of the multiset)

def extIdx : Option Nat := fieldIdx "Certificate.Extensions"

theorem extension_rangers_reviewed :
    (registrations.filter (fun r => match extIdx with | some i => r.reads.contains i | none => false)).all
      (fun r => reviewedExtensionRangers.contains r.name) = true := by decide +kernel

/-- non-vacuity: the witness of `scan_not_perm` for the NA-then-finding shape -/
example : scan (fun (n : Nat) => if n == 0 then some Status.na else if n == 1 then some Status.warn else none) Status.pass [0, 1]
    ≠ scan (fun (n : Nat) => if n == 0 then some Status.na else if n == 1 then some Status.warn else none) Status.pass [1, 0] := by decide


/-! ## Modelled lints: order independence proved for the rule body itself -/
section ModelledLints
open Zl.Names

/-- the fourteen modelled name lints (ZlModel/Names.lean) return the same verdicts on every permutation of the
    SAN / IAN name lists -/
theorem names_verdicts_perm (v v' : View) (hcn : v'.cn = v.cn) (hip : v'.cnIsIP = v.cnIsIP)
    (hd : v.dns.Perm v'.dns) (hu : v.uris.Perm v'.uris) (hid : v.ianDns.Perm v'.ianDns) (hiu : v.ianUris.Perm v'.ianUris) :
    verdicts v = verdicts v' := by
  simp only [verdicts, rfcLabelTooLong, brLabelTooLong, rfcEmptyLabel, brEmptyLabel, sanSpaceDNS, ianSpaceDNS,
    sanUriNotIA5, ianUriNotIA5, wildcardOnlyLeft, leftLabelWildcard, underscoreInDNS, sanNullChar, sanStartsWithPeriod,
    sanWildcardNotFirst, cnJudged, hcn, hip,
    anyFinding_perm labelTooLong Status.error hd, anyFinding_perm hasEmptyLabel Status.error hd,
    anyFinding_perm isSpace Status.error hd, anyFinding_perm isSpace Status.error hid,
    anyFinding_perm notAscii Status.error hu, anyFinding_perm notAscii Status.error hiu,
    anyFinding_perm wildcardNotInLeftLabel Status.error hd, anyFinding_perm wildcardInLeftLabelIncorrect Status.error hd,
    anyFinding_perm hasUnderscore Status.error hd, anyFinding_perm hasNull Status.error hd,
    anyFinding_perm startsWithPeriod Status.error hd, anyFinding_perm wildcardNotFirst Status.error hd]

/-- `e_san_wildcard_not_first` and `e_dnsname_wildcard_only_in_left_label` / `…left_label_wildcard_correct` read the
    same names differently; what each means, stated outright -/
theorem wildcardNotFirst_iff (d : Bytes) : wildcardNotFirst d = true ↔ 42 ∈ d.drop 1 := by
  unfold wildcardNotFirst; simp

theorem startsWithPeriod_iff (d : Bytes) : startsWithPeriod d = true ↔ ∃ rest, d = 46 :: rest := by
  unfold startsWithPeriod
  cases d with
  | nil => simp
  | cons c cs => simp

end ModelledLints

end Zl.C17
