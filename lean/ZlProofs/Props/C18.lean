/-
  C18 — TLD validity follows the delegation table exactly.
-/
import ZlProofs.Lemmas.TldRow
import ZlProofs.Lemmas.Framework
import ZlProofs.Props.C18Parts.P0
import ZlProofs.Props.C18Parts.P1
import ZlProofs.Props.C18Parts.P2
import ZlProofs.Props.C18Parts.P3
import ZlProofs.Props.C18Parts.P4
import ZlProofs.Props.C18Parts.P5
import ZlProofs.Props.C18Parts.P6
import ZlProofs.Props.C18Parts.P7
namespace Zl.C18
open Zl Generated

/-- **Every table entry is well-formed** (the eight parts are checked by the kernel in parallel in
    `C18Parts/P*.lean`), keys are strictly sorted (hence unique); the literal in the source, the emitted
    table and the run-time map have the same number of entries. -/
theorem table_wellformed : tld.all rowOK = true ∧ strictSorted (tld.map (·.key)) = true
    ∧ tld.length = tldSourceLen ∧ tldSourceLen = tldRuntimeLen := by
  refine ⟨?_, by decide +kernel, by decide +kernel, by decide +kernel⟩
  simp only [tld, List.all_append, Bool.and_eq_true]
  exact ⟨part0_ok, part1_ok, part2_ok, part3_ok, part4_ok, part5_ok, part6_ok, part7_ok⟩

theorem keys_nodup : (tld.map (·.key)).Nodup := strictSorted_nodup _ table_wellformed.2.1

/-- the "parse error ⇒ valid for ever" branch of `Valid` is unreachable for table entries -/
theorem valid_no_silent_error (r : TldRow) (hr : r ∈ tld) :
    (parseDate (bytesOfKey r.deleg)).isSome = true
    ∧ ((bytesOfKey r.rem).isEmpty = true ∨ (parseDate (bytesOfKey r.rem)).isSome = true) := by
  have h := List.all_eq_true.mp table_wellformed.1 r hr
  simp only [rowOK, Bool.and_eq_true, Bool.or_eq_true] at h
  obtain ⟨⟨_, h1⟩, h2⟩ := h
  refine ⟨h1, ?_⟩
  rcases h2 with h2 | h2
  · exact Or.inl h2
  · exact Or.inr h2.1

/-- lookup by key in a list with unique keys -/
theorem find_key_iff (l : List TldRow) (hnd : (l.map (·.key)).Nodup) (k : Nat) (r : TldRow) :
    l.find? (fun x => x.key == k) = some r ↔ r ∈ l ∧ r.key = k := by
  constructor
  · intro h; exact ⟨List.mem_of_find?_eq_some h, by simpa using List.find?_some h⟩
  · rintro ⟨hm, hk⟩
    induction l with
    | nil => cases hm
    | cons a l ih =>
      simp only [List.map_cons] at hnd
      have hnd' := List.nodup_cons.mp hnd
      simp only [List.find?_cons]
      rcases List.mem_cons.mp hm with rfl | hm
      · simp [hk]
      · have : (a.key == k) = false := by
          have : a.key ≠ k := by
            intro h; apply hnd'.1; rw [h, ← hk]; exact List.mem_map.mpr ⟨r, hm, rfl⟩
          simpa using this
        rw [this]; exact ih hnd'.2 hm

theorem not_before_iff (a b : Time) : Time.before a b = false ↔ Time.le b a := by
  rw [← Bool.not_eq_true, Time.before_iff]
  unfold Time.lt Time.le; omega

/-- `Valid` decides the closed interval [delegation, removal] on instants (removal optional) -/
theorem periodValid_iff (deleg rem : List Nat) (t : Time) :
    periodValid deleg rem t = true ↔
      Time.le (parseDateOrZero deleg) t ∧ (rem = [] ∨ Time.le t (parseDateOrZero rem)) := by
  unfold periodValid
  cases hb : Time.before t (parseDateOrZero deleg) with
  | true =>
    simp only [↓reduceIte, Bool.false_eq_true, false_iff, not_and]
    intro hle
    have := (not_before_iff t (parseDateOrZero deleg)).mpr hle
    rw [hb] at this; cases this
  | false =>
    have hle := (not_before_iff _ _).mp hb
    simp only [Bool.false_eq_true, ↓reduceIte, hle, true_and]
    cases rem with
    | nil => simp
    | cons a l =>
      simp only [List.isEmpty_cons, Bool.not_false, ↓reduceIte, Bool.not_eq_eq_eq_not, Bool.not_true, reduceCtorEq, false_or]
      unfold Time.after
      exact not_before_iff _ _

/-- the label under which a domain is looked up -/
def lookupKey (domain : List Nat) : Option Nat :=
  let l := lastLabelLower domain
  if l.length ≥ tldWidth || l.contains 0 then none else some (padKeyOfBytes tldWidth l)

/-- **A DNS name has a valid TLD at time t iff** its right-most label, lower-cased, is a table key, t is
    not before that entry's delegation instant and, when a removal date is recorded, not after it. -/
theorem hasValidTLD_spec (domain : List Nat) (t : Time) :
    hasValidTLD domain t = true ↔
      ∃ r ∈ tld, lookupKey domain = some r.key
        ∧ Time.le (parseDateOrZero (bytesOfKey r.deleg)) t
        ∧ (bytesOfKey r.rem = [] ∨ Time.le t (parseDateOrZero (bytesOfKey r.rem))) := by
  unfold hasValidTLD tldLookup lookupKey
  by_cases hc : ((lastLabelLower domain).length ≥ tldWidth || (lastLabelLower domain).contains 0) = true
  · simp only [hc, ↓reduceIte, Bool.false_eq_true, false_iff, reduceCtorEq, false_and, and_false, exists_false, not_false_eq_true]
  · simp only [hc, Bool.false_eq_true, ↓reduceIte, Option.some.injEq]
    cases hf : tld.find? (fun r => r.key == padKeyOfBytes tldWidth (lastLabelLower domain)) with
    | none =>
      simp only [Bool.false_eq_true, false_iff, not_exists, not_and]
      intro r hr hk
      have := (find_key_iff tld keys_nodup _ r).mpr ⟨hr, hk.symm⟩
      rw [hf] at this; cases this
    | some r =>
      obtain ⟨hr, hk⟩ := (find_key_iff tld keys_nodup _ r).mp hf
      simp only [periodValid_iff]
      constructor
      · rintro ⟨h1, h2⟩; exact ⟨r, hr, hk.symm, h1, h2⟩
      · rintro ⟨r', hr', hk', h1, h2⟩
        have : r' = r := by
          have h' := (find_key_iff tld keys_nodup _ r').mpr ⟨hr', hk'.symm⟩
          rw [hf] at h'; cases h'; rfl
        subst this; exact ⟨h1, h2⟩

/-- **"Was ever a TLD" ignores dates.** -/
theorem isInTLDMap_spec (label : List Nat) :
    isInTLDMap label = true ↔
      ((label.map lowerByte).length < tldWidth ∧ (label.map lowerByte).contains 0 = false
        ∧ ∃ r ∈ tld, r.key = padKeyOfBytes tldWidth (label.map lowerByte)) := by
  unfold isInTLDMap tldLookup
  by_cases hc : ((label.map lowerByte).length ≥ tldWidth || (label.map lowerByte).contains 0) = true
  · simp only [hc, ↓reduceIte, Option.isSome_none, Bool.false_eq_true, false_iff, not_and, not_exists]
    intro h1 h2
    simp only [Bool.or_eq_true, decide_eq_true_eq] at hc
    rcases hc with hc | hc
    · omega
    · rw [h2] at hc; cases hc
  · have hc' : (label.map lowerByte).length < tldWidth ∧ (label.map lowerByte).contains 0 = false := by
      simp only [Bool.or_eq_true, decide_eq_true_eq, not_or, Bool.not_eq_true] at hc
      exact ⟨by omega, hc.2⟩
    have hd : decide ((label.map lowerByte).length ≥ tldWidth) = false := decide_eq_false (by have := hc'.1; omega)
    simp only [hd, hc'.2, Bool.or_self, Bool.false_eq_true, ↓reduceIte, hc'.1, true_and]
    rw [List.find?_isSome]
    constructor
    · rintro ⟨r, hr, hk⟩; exact ⟨r, hr, by simpa using hk⟩
    · rintro ⟨r, hr, hk⟩; exact ⟨r, hr, by simpa using hk⟩

/-- **The TLD lint** reports an error for a subscriber certificate exactly when its non-IP common
    name or one of its DNS names fails the test at notBefore. -/
theorem tld_lint_spec (cn : List Nat) (cnIsIP : Bool) (dns : List (List Nat)) (nb : Time) :
    tldLint cn cnIsIP dns nb = Status.error ↔
      (cn ≠ [] ∧ cnIsIP = false ∧ hasValidTLD cn nb = false) ∨ ∃ d ∈ dns, hasValidTLD d nb = false := by
  unfold tldLint
  by_cases h1 : (!cn.isEmpty && !cnIsIP && !hasValidTLD cn nb) = true
  · simp only [h1, ↓reduceIte, true_iff]
    simp only [Bool.and_eq_true, Bool.not_eq_eq_eq_not, Bool.not_true] at h1
    left
    exact ⟨by intro h; rw [h] at h1; simp at h1, h1.1.2, h1.2⟩
  · simp only [h1, Bool.false_eq_true, ↓reduceIte]
    have hno : ¬ (cn ≠ [] ∧ cnIsIP = false ∧ hasValidTLD cn nb = false) := by
      rintro ⟨a, b, c⟩
      apply h1
      simp only [Bool.and_eq_true, Bool.not_eq_eq_eq_not, Bool.not_true, b, c, and_self, and_true]
      cases cn with
      | nil => exact absurd rfl a
      | cons x xs => rfl
    by_cases h2 : dns.any (fun d => !hasValidTLD d nb) = true
    · simp only [h2, ↓reduceIte, true_iff]
      right
      obtain ⟨d, hd, hv⟩ := List.any_eq_true.mp h2
      exact ⟨d, hd, by simpa using hv⟩
    · simp only [h2, Bool.false_eq_true, ↓reduceIte]
      constructor
      · intro h; cases h
      · rintro (h | ⟨d, hd, hv⟩)
        · exact absurd h hno
        · exfalso; apply h2; exact List.any_eq_true.mpr ⟨d, hd, by simp [hv]⟩

/-- … hence the verdict does not depend on the order of the DNS names (a C17 instance) -/
theorem tld_lint_perm (cn : List Nat) (cnIsIP : Bool) (dns dns' : List (List Nat)) (nb : Time) (hp : dns.Perm dns') :
    tldLint cn cnIsIP dns nb = tldLint cn cnIsIP dns' nb := by
  have key : ∀ l, (tldLint cn cnIsIP l nb = Status.error) ∨ (tldLint cn cnIsIP l nb = Status.pass) := by
    intro l; unfold tldLint; split <;> (try split) <;> simp
  have iffE : tldLint cn cnIsIP dns nb = Status.error ↔ tldLint cn cnIsIP dns' nb = Status.error := by
    rw [tld_lint_spec, tld_lint_spec]
    constructor
    · rintro (h | ⟨d, hd, hv⟩)
      · exact Or.inl h
      · exact Or.inr ⟨d, hp.mem_iff.mp hd, hv⟩
    · rintro (h | ⟨d, hd, hv⟩)
      · exact Or.inl h
      · exact Or.inr ⟨d, hp.mem_iff.mpr hd, hv⟩
  rcases key dns with h | h <;> rcases key dns' with h' | h'
  · rw [h, h']
  · rw [iffE.mp h] at h'; cases h'
  · rw [iffE.mpr h'] at h; cases h
  · rw [h, h']

/-- non-vacuity: the table is large and the spec's right-hand side is satisfiable ("com" in 2024) -/
example : tld.length > 1500 ∧ hasValidTLD [119, 119, 119, 46, 99, 111, 109] ⟨1717200000, 0⟩ = true
    ∧ hasValidTLD [119, 46, 67, 79, 77] ⟨1717200000, 0⟩ = true ∧ hasValidTLD [99, 111, 109, 46] ⟨1717200000, 0⟩ = false := by
  decide +kernel

end Zl.C18
