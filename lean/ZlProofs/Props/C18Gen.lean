/-
  C18 (regeneration clause) — every table the generator can write is well-formed.

  "for all … future regenerations of the table": whatever the two feeds contain, when
  `renderGTLDMap` returns without error every row it writes has a parseable delegation date and an
  empty or parseable removal date not earlier than the delegation; the rows written from the map have
  pairwise distinct names (so each is keyed by its own name); names taken from the root-zone list are
  lower-case. That names from the gTLD feed are lower-case is an assumption on the feed (A-FEED): the
  generator copies them as they are.
-/
import ZlModel.TldGen
namespace Zl.C18Gen
open Zl

/-- what one accepted entry looks like, spelled out -/
theorem entryOk_iff (e : GEntry) :
    entryOk e = true ↔ ∃ d, parseDate e.deleg = some d ∧
      (e.rem = [] ∨ ∃ r, parseDate e.rem = some r ∧ Time.before r d = false) := by
  unfold entryOk
  cases hd : parseDate e.deleg with
  | none => simp
  | some d =>
    cases hr : e.rem with
    | nil => simp
    | cons b bs =>
      cases hp : parseDate (b :: bs) with
      | none => simp
      | some r => simp

/-- **validateGTLDs**: no error iff every entry has a parseable delegation date and an empty, or a
    parseable and not earlier, removal date -/
theorem validate_spec (es : List GEntry) : validateG es = true ↔ ∀ e ∈ es, entryOk e = true := by
  simp [validateG, List.all_eq_true]

/-- an entry with an unparseable delegation date is always refused (whatever its removal date) -/
theorem unparseable_delegation_refused (es : List GEntry) (e : GEntry) (he : e ∈ es) (hbad : parseDate e.deleg = none) :
    validateG es = false := by
  cases h : validateG es with
  | false => rfl
  | true =>
    have := (validate_spec es).1 h e he
    rw [entryOk_iff] at this
    obtain ⟨d, hd, _⟩ := this
    rw [hbad] at hd; cases hd

theorem removal_before_delegation_refused (es : List GEntry) (e : GEntry) (he : e ∈ es) (d r : Time)
    (hd : parseDate e.deleg = some d) (hr : parseDate e.rem = some r) (hne : e.rem ≠ []) (hlt : Time.before r d = true) :
    validateG es = false := by
  cases h : validateG es with
  | false => rfl
  | true =>
    have := (validate_spec es).1 h e he
    rw [entryOk_iff] at this
    obtain ⟨d', hd', hor⟩ := this
    rw [hd] at hd'; cases hd'
    rcases hor with h0 | ⟨r', hr', hb⟩
    · exact absurd h0 hne
    · rw [hr] at hr'; cases hr'; rw [hlt] at hb; cases hb

/-! membership through the map operations -/
theorem mem_putG {m : List GEntry} {e x : GEntry} (h : x ∈ putG m e) : x ∈ m ∨ x = e := by
  unfold putG at h
  split at h
  · rw [List.mem_map] at h
    obtain ⟨y, hy, hxy⟩ := h
    split at hxy
    · right; exact hxy.symm
    · left; rw [← hxy]; exact hy
  · rw [List.mem_append] at h
    rcases h with h | h
    · left; exact h
    · right; simpa using h

theorem mem_putIfAbsent {m : List GEntry} {e x : GEntry} (h : x ∈ putIfAbsent m e) : x ∈ m ∨ x = e := by
  unfold putIfAbsent at h
  split at h
  · left; exact h
  · rw [List.mem_append] at h
    rcases h with h | h
    · left; exact h
    · right; simpa using h

theorem mem_foldl_putG (es : List GEntry) (m : List GEntry) (x : GEntry) (h : x ∈ es.foldl putG m) : x ∈ m ∨ x ∈ es := by
  induction es generalizing m with
  | nil => left; exact h
  | cons e es ih =>
    rcases ih (putG m e) h with h1 | h1
    · rcases mem_putG h1 with h2 | h2
      · left; exact h2
      · right; rw [h2]; exact List.mem_cons_self
    · right; exact List.mem_cons_of_mem _ h1

theorem mem_foldl_putIfAbsent (es : List GEntry) (m : List GEntry) (x : GEntry) (h : x ∈ es.foldl putIfAbsent m) : x ∈ m ∨ x ∈ es := by
  induction es generalizing m with
  | nil => left; exact h
  | cons e es ih =>
    rcases ih (putIfAbsent m e) h with h1 | h1
    · rcases mem_putIfAbsent h1 with h2 | h2
      · left; exact h2
      · right; rw [h2]; exact List.mem_cons_self
    · right; exact List.mem_cons_of_mem _ h1

theorem date1985_parses : (parseDate date1985).isSome = true := by decide
theorem onion_ok : entryOk onionRow = true := by decide

theorem entryOk_1985 (n : List Nat) : entryOk ⟨n, date1985, []⟩ = true := by
  have h := date1985_parses
  unfold entryOk
  simp only
  cases hp : parseDate date1985 with
  | none => rw [hp] at h; cases h
  | some d => simp

theorem tldEntry_ok (x : GEntry) (lines : List (List Nat)) (h : x ∈ tldEntries lines) : entryOk x = true := by
  unfold tldEntries at h
  rw [List.mem_map] at h
  obtain ⟨l, _, hl⟩ := h
  rw [← hl]
  exact entryOk_1985 _

/-- where a written row comes from -/
theorem row_origin (gs : List GEntry) (lines : List (List Nat)) (rows : List GEntry) (h : generate gs lines = some rows)
    (x : GEntry) (hx : x ∈ rows) : x ∈ delegatedG gs ∨ x ∈ tldEntries lines ∨ x = onionRow := by
  unfold generate at h
  simp only at h
  split at h
  · cases h
    rw [List.mem_append] at hx
    rcases hx with hx | hx
    · rcases mem_foldl_putIfAbsent _ _ _ hx with h1 | h1
      · rcases mem_foldl_putG _ _ _ h1 with h2 | h2
        · cases h2
        · left; exact h2
      · right; left; exact h1
    · right; right; simpa using hx
  · cases h

/-- **Every regenerated table has well-formed dates**, whatever the feeds contain. -/
theorem generate_rows_ok (gs : List GEntry) (lines : List (List Nat)) (rows : List GEntry) (h : generate gs lines = some rows) :
    ∀ x ∈ rows, entryOk x = true := by
  intro x hx
  have hv : validateG (delegatedG gs) = true := by
    unfold generate at h
    simp only at h
    split at h
    · assumption
    · cases h
  rcases row_origin gs lines rows h x hx with h1 | h1 | h1
  · exact (validate_spec _).1 hv x h1
  · exact tldEntry_ok x lines h1
  · rw [h1]; exact onion_ok

/-- the generator refuses (writes nothing) exactly when a delegated feed entry is malformed -/
theorem generate_none_iff (gs : List GEntry) (lines : List (List Nat)) :
    generate gs lines = none ↔ ∃ e ∈ gs, e.deleg ≠ [] ∧ entryOk e = false := by
  unfold generate
  simp only
  constructor
  · intro h
    split at h
    · cases h
    · rename_i hv
      have hv' : validateG (delegatedG gs) = false := by simpa using hv
      unfold validateG at hv'
      rw [List.all_eq_false] at hv'
      obtain ⟨e, he, hb⟩ := hv'
      simp only [delegatedG, List.mem_filter, Bool.not_eq_true', List.isEmpty_eq_false_iff] at he
      exact ⟨e, he.1, he.2, by simpa using hb⟩
  · rintro ⟨e, he, hd, hbad⟩
    have : validateG (delegatedG gs) = false := by
      cases hv : validateG (delegatedG gs) with
      | false => rfl
      | true =>
        have hmem : e ∈ delegatedG gs := by
          simp only [delegatedG, List.mem_filter, Bool.not_eq_true', List.isEmpty_eq_false_iff]
          exact ⟨he, hd⟩
        have := (validate_spec _).1 hv e hmem
        rw [hbad] at this; cases this
    simp [this]

/-! names: distinct in the map, lower-case from the root-zone list -/
def names (m : List GEntry) : List (List Nat) := m.map (·.name)

theorem names_putG_replace (m : List GEntry) (e : GEntry) :
    names (m.map (fun x => if x.name == e.name then e else x)) = names m := by
  unfold names
  rw [List.map_map]
  apply List.map_congr_left
  intro x _
  simp only [Function.comp]
  split
  · rename_i h; exact (beq_iff_eq.1 h).symm
  · rfl

theorem nodup_putG (m : List GEntry) (e : GEntry) (h : (names m).Nodup) : (names (putG m e)).Nodup := by
  unfold putG
  split
  · rw [names_putG_replace]; exact h
  · rename_i hn
    unfold names at *
    rw [List.map_append, List.nodup_append]
    refine ⟨h, by simp, ?_⟩
    intro a ha b hb
    simp only [List.map_cons, List.map_nil, List.mem_singleton] at hb
    rw [hb]
    intro hab
    apply hn
    rw [List.any_eq_true]
    rw [List.mem_map] at ha
    obtain ⟨y, hy, hya⟩ := ha
    exact ⟨y, hy, by rw [beq_iff_eq, hya, hab]⟩

theorem nodup_putIfAbsent (m : List GEntry) (e : GEntry) (h : (names m).Nodup) : (names (putIfAbsent m e)).Nodup := by
  unfold putIfAbsent
  split
  · exact h
  · rename_i hn
    unfold names at *
    rw [List.map_append, List.nodup_append]
    refine ⟨h, by simp, ?_⟩
    intro a ha b hb
    simp only [List.map_cons, List.map_nil, List.mem_singleton] at hb
    rw [hb]
    intro hab
    apply hn
    rw [List.any_eq_true]
    rw [List.mem_map] at ha
    obtain ⟨y, hy, hya⟩ := ha
    exact ⟨y, hy, by rw [beq_iff_eq, hya, hab]⟩

theorem nodup_foldl (f : List GEntry → GEntry → List GEntry) (hf : ∀ m e, (names m).Nodup → (names (f m e)).Nodup)
    (es m : List GEntry) (h : (names m).Nodup) : (names (es.foldl f m)).Nodup := by
  induction es generalizing m with
  | nil => exact h
  | cons e es ih => exact ih _ (hf m e h)

/-- **the rows written from the map have pairwise distinct names** -/
theorem merged_names_nodup (d : List GEntry) (lines : List (List Nat)) : (names (mergedMap d lines)).Nodup := by
  unfold mergedMap
  exact nodup_foldl _ nodup_putIfAbsent _ _ (nodup_foldl _ nodup_putG _ _ (by simp [names]))

theorem lowerByte_idem (b : Nat) : lowerByte (lowerByte b) = lowerByte b := by
  unfold lowerByte
  by_cases h : (decide (65 ≤ b) && decide (b ≤ 90)) = true
  · rw [if_pos h]
    have : ¬ ((decide (65 ≤ b + 32) && decide (b + 32 ≤ 90)) = true) := by simp at h ⊢; omega
    rw [if_neg this]
  · rw [if_neg h, if_neg h]

def isLower (n : List Nat) : Prop := n.map lowerByte = n

/-- **names are lower-case**: from the root-zone list always, from the gTLD feed if the feed's are -/
theorem generate_lowercase (gs : List GEntry) (lines : List (List Nat)) (rows : List GEntry) (h : generate gs lines = some rows)
    (hfeed : ∀ g ∈ gs, isLower g.name) : ∀ x ∈ rows, isLower x.name := by
  intro x hx
  rcases row_origin gs lines rows h x hx with h1 | h1 | h1
  · exact hfeed x (List.mem_filter.1 h1).1
  · unfold tldEntries at h1
    rw [List.mem_map] at h1
    obtain ⟨l, _, hl⟩ := h1
    rw [← hl]
    simp only [isLower, List.map_map]
    apply List.map_congr_left
    intro b _
    exact lowerByte_idem b
  · rw [h1]; show onionRow.name.map lowerByte = onionRow.name; decide

/-- non-vacuity: a feed with a duplicate, an undelegated entry and a removed entry generates; one with
    a removal before the delegation or a malformed delegation date does not -/
example : (generate [⟨[97], date1985, []⟩, ⟨[98], [], []⟩, ⟨[97], date1985, date1985⟩] [[67, 79, 77], [35, 120]]).isSome = true := by decide
example : generate [⟨[97], [50, 48, 50, 48, 45, 48, 49, 45, 48, 49], date1985⟩] [] = none := by decide
example : generate [⟨[97], [50, 48, 50, 48, 45, 49, 45, 49], []⟩] [] = none := by decide

end Zl.C18Gen
