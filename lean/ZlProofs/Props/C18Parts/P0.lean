import ZlProofs.Lemmas.TldRow
namespace Zl.C18
open Zl Generated
/-- rows of part 0 of the regenerated table are well-formed (kernel evaluation) -/
theorem part0_ok : tldPart_0.all rowOK = true := by decide +kernel
end Zl.C18
