import ZlProofs.Lemmas.TldRow
namespace Zl.C18
open Zl Generated
/-- rows of part 1 of the regenerated table are well-formed (kernel evaluation) -/
theorem part1_ok : tldPart_1.all rowOK = true := by decide +kernel
end Zl.C18
