import ZlProofs.Lemmas.TldRow
namespace Zl.C18
open Zl Generated
/-- rows of part 2 of the regenerated table are well-formed (kernel evaluation) -/
theorem part2_ok : tldPart_2.all rowOK = true := by decide +kernel
end Zl.C18
