import ZlProofs.Lemmas.TldRow
namespace Zl.C18
open Zl Generated
/-- rows of part 3 of the regenerated table are well-formed (kernel evaluation) -/
theorem part3_ok : tldPart_3.all rowOK = true := by decide +kernel
end Zl.C18
