import ZlProofs.Lemmas.TldRow
namespace Zl.C18
open Zl Generated
/-- rows of part 4 of the regenerated table are well-formed (kernel evaluation) -/
theorem part4_ok : tldPart_4.all rowOK = true := by decide +kernel
end Zl.C18
