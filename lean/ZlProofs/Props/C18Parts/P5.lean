import ZlProofs.Lemmas.TldRow
namespace Zl.C18
open Zl Generated
/-- rows of part 5 of the regenerated table are well-formed (kernel evaluation) -/
theorem part5_ok : tldPart_5.all rowOK = true := by decide +kernel
end Zl.C18
