import ZlProofs.Lemmas.TldRow
namespace Zl.C18
open Zl Generated
/-- rows of part 6 of the regenerated table are well-formed (kernel evaluation) -/
theorem part6_ok : tldPart_6.all rowOK = true := by decide +kernel
end Zl.C18
