import ZlProofs.Lemmas.TldRow
namespace Zl.C18
open Zl Generated
/-- rows of part 7 of the regenerated table are well-formed (kernel evaluation) -/
theorem part7_ok : tldPart_7.all rowOK = true := by decide +kernel
end Zl.C18
