/-
  C19 — Reserved-address verdicts are consistent for hosts and networks.
-/
import ZlProofs.Lemmas.Ip
namespace Zl.C19
open Zl

/-- a network whose (normalised) prefix fits its width, width 32 or 128 -/
def Net.WF (n : Net) : Prop := (n.norm.base.width = 32 ∨ n.norm.base.width = 128) ∧ n.norm.plen ≤ n.norm.base.width

/-- a CIDR network in canonical form: no host bits set in the base address -/
def Net.canonical (n : Net) : Prop := n.norm.base.val % 2 ^ (n.norm.base.width - n.norm.plen) = 0

/-- a non-global-unicast class is *covered* by the table when some table network starts inside it
    (or the class starts at the all-zero address, whose every super-net has the unspecified base) -/
def blockCovered (tbl : List Net) (B : Nat × Nat × Nat) : Bool :=
  B.2.1 == 0 || tbl.any (fun r => r.norm.base.width == B.1 && cont B.1 B.2.1 B.2.2 r.norm.base.val)

def nonGUCovered (tbl : List Net) : Bool := nonGUBlocks.all (blockCovered tbl)

def tableWF (tbl : List Net) : Bool := tbl.all (fun r => decide (r.norm.plen ≤ r.norm.base.width))

/-- unpack `contains` -/
theorem contains_iff (n : Net) (x : Addr) : n.contains x = true ↔
    n.norm.base.width = x.norm.width ∧ x.norm.val / 2 ^ (n.norm.base.width - n.norm.plen) = n.norm.base.val / 2 ^ (n.norm.base.width - n.norm.plen) := by
  simp [Net.contains_eq, cont]

theorem nonGU_of_block (a : Addr) (hw : a.norm.width = 32 ∨ a.norm.width = 128)
    (B : Nat × Nat × Nat) (hB : B ∈ nonGUBlocks) (hBw : B.1 = a.norm.width) (hc : cont B.1 B.2.1 B.2.2 a.norm.val = true) :
    a.isGlobalUnicast = false := by
  rw [← Addr.isGlobalUnicast_norm, gu_norm a.norm (Addr.norm_idem a) hw]
  have : inNonGU a.norm.width a.norm.val = true := (inNonGU_iff _ _).mpr ⟨B, hB, hBw, hc⟩
  simp [this]

/-- **A network intersects reserved space whenever it contains a reserved address** — for every table
    that covers the non-global-unicast classes (checked for the regenerated table below). -/
theorem contains_reserved_intersects_in (tbl : List Net) (hcov : nonGUCovered tbl = true) (htbl : tableWF tbl = true)
    (N : Net) (hN : Net.WF N) (hcan : Net.canonical N) (x : Addr)
    (hc : N.contains x = true) (hr : isReservedIn tbl x = true) : intersectsIn tbl N = true := by
  obtain ⟨hNw, hNp⟩ := hN
  obtain ⟨hwx, hcx⟩ := (contains_iff N x).mp hc
  have hbase : N.norm.base = N.base.norm := Net.norm_base N
  unfold intersectsIn
  cases hgu : N.base.isGlobalUnicast with
  | false => simp
  | true =>
    simp only [Bool.not_true, Bool.false_or, List.any_eq_true, Bool.or_eq_true]
    unfold isReservedIn at hr
    simp only [Bool.or_eq_true, Bool.not_eq_eq_eq_not, Bool.not_true, List.any_eq_true] at hr
    rcases hr with hxgu | ⟨r, hrt, hrc⟩
    · -- x is not global unicast: it lies in one of the class blocks
      have hxw : x.norm.width = 32 ∨ x.norm.width = 128 := by rw [← hwx]; exact hNw
      have hx' : x.norm.isGlobalUnicast = false := by rw [Addr.isGlobalUnicast_norm]; exact hxgu
      rw [gu_norm x.norm (Addr.norm_idem x) hxw] at hx'
      have hin : inNonGU x.norm.width x.norm.val = true := by simpa using hx'
      obtain ⟨B, hB, hBw, hBc⟩ := (inNonGU_iff _ _).mp hin
      have hBwf := nonGUBlocks_wf B hB
      have hBN : B.1 = N.norm.base.width := by rw [hBw, hwx]
      by_cases hle : B.2.2 ≤ N.norm.plen
      · -- N ⊆ B: the base of N is in the class, so it is not global unicast: contradiction with hgu
        exfalso
        have : cont B.1 B.2.1 B.2.2 N.norm.base.val = true := by
          rw [hBN]
          refine nested N.norm.base.width N.norm.base.val N.norm.plen B.2.1 B.2.2 x.norm.val hle hNp ?_ (by rw [← hBN]; exact hBc) _ (cont_self _ _ _)
          simp [cont, hcx]
        have hng := nonGU_of_block N.base (by rw [← hbase]; exact hNw) B hB (by rw [hBN, hbase]) (by rw [← hbase]; exact this)
        rw [hng] at hgu; cases hgu
      · -- B ⊊ N
        have hlt : N.norm.plen ≤ B.2.2 := by omega
        have hcovB : blockCovered tbl B = true := List.all_eq_true.mp hcov B hB
        unfold blockCovered at hcovB
        rcases (Bool.or_eq_true _ _).mp hcovB with h0 | hr
        · -- the class starts at address 0: so does N (canonical), whose base is then unspecified
          exfalso
          have hb0 : B.2.1 = 0 := by simpa using h0
          have hx0 : x.norm.val / 2 ^ (B.1 - B.2.2) = 0 := by
            have := hBc; simp only [cont, beq_iff_eq, hb0, Nat.zero_div] at this; exact this
          have hx1 : x.norm.val / 2 ^ (N.norm.base.width - N.norm.plen) = 0 := by
            have := cont_shorter N.norm.base.width x.norm.val 0 B.2.2 N.norm.plen hlt (by rw [← hBN]; exact hBwf) (by rw [← hBN, hx0]; simp)
            simpa using this
          have hN0 : N.norm.base.val / 2 ^ (N.norm.base.width - N.norm.plen) = 0 := by rw [← hcx]; exact hx1
          have hlt2 : N.norm.base.val < 2 ^ (N.norm.base.width - N.norm.plen) :=
            (Nat.div_eq_zero_iff_lt (Nat.two_pow_pos _)).mp hN0
          have hzero : N.norm.base.val = 0 := by
            have := Nat.mod_eq_of_lt hlt2
            unfold Net.canonical at hcan
            omega
          have hng : N.base.isGlobalUnicast = false := by
            rcases hNw with h32 | h128
            · exact nonGU_of_block N.base (by rw [← hbase]; exact Or.inl h32) (32, 0, 32) (by decide) (by rw [← hbase]; exact h32.symm)
                (by rw [← hbase, hzero]; decide)
            · exact nonGU_of_block N.base (by rw [← hbase]; exact Or.inr h128) (128, 0, 128) (by decide) (by rw [← hbase]; exact h128.symm)
                (by rw [← hbase, hzero]; decide)
          rw [hng] at hgu; cases hgu
        · -- a table network starts inside the class, hence inside N
          obtain ⟨r, hrt, hrw⟩ := List.any_eq_true.mp hr
          simp only [Bool.and_eq_true, beq_iff_eq] at hrw
          refine ⟨r, hrt, Or.inr ?_⟩
          rw [contains_iff, ← Net.norm_base r]
          refine ⟨by rw [hrw.1, hBN], ?_⟩
          -- r.base and x agree on B's prefix, hence on N's shorter prefix; x and N.base agree on N's prefix
          have h1 : r.norm.base.val / 2 ^ (B.1 - B.2.2) = x.norm.val / 2 ^ (B.1 - B.2.2) := by
            have a := hrw.2; have b := hBc
            simp only [cont, beq_iff_eq] at a b
            rw [a, b]
          have h2 := cont_shorter B.1 r.norm.base.val x.norm.val B.2.2 N.norm.plen hlt hBwf h1
          rw [hBN] at h2
          rw [h2, hcx]
    · -- x lies in a table network r: r and N are nested
      obtain ⟨hrw, hrx⟩ := (contains_iff r x).mp hrc
      have hrwf : r.norm.plen ≤ r.norm.base.width := by
        have := List.all_eq_true.mp htbl r hrt; simpa using this
      have hwr : r.norm.base.width = N.norm.base.width := by rw [hrw, hwx]
      refine ⟨r, hrt, ?_⟩
      by_cases hle : r.norm.plen ≤ N.norm.plen
      · left
        rw [contains_iff, ← hbase]
        refine ⟨hwr, ?_⟩
        have := cont_shorter N.norm.base.width x.norm.val N.norm.base.val N.norm.plen r.norm.plen hle hNp hcx
        rw [hwr, ← this, ← hwr]; exact hrx.symm ▸ rfl
      · right
        have hle' : N.norm.plen ≤ r.norm.plen := by omega
        rw [contains_iff, ← Net.norm_base r]
        refine ⟨hwr.symm, ?_⟩
        have := cont_shorter r.norm.base.width x.norm.val r.norm.base.val r.norm.plen N.norm.plen hle' hrwf hrx
        rw [hwr] at this
        rw [← this, hcx]

/-! ### the regenerated table -/

/-- every table network has its prefix within its width (32 or 128) -/
theorem table_wf : tableWF reservedNets = true
    ∧ reservedNets.all (fun r => r.base.width == 32 || r.base.width == 128) = true := by decide +kernel

/-- every address class that `IsGlobalUnicast` excludes is covered by the table (this is what failed
    for 127.0.0.0/8 before the `fix:` commit that lists the loopback blocks) -/
theorem table_covers_nonGU : nonGUCovered reservedNets = true := by decide +kernel

/-- **A network intersects reserved space whenever it contains a reserved address** (real table). -/
theorem contains_reserved_intersects (N : Net) (hN : Net.WF N) (hcan : Net.canonical N) (x : Addr)
    (hc : N.contains x = true) (hr : isReserved x = true) : intersectsReserved N = true :=
  contains_reserved_intersects_in reservedNets table_covers_nonGU table_wf.1 N hN hcan x hc hr

/-- a network contains its own base address -/
theorem contains_base (n : Net) : n.contains n.base = true := by
  rw [contains_iff, ← Net.norm_base]; exact ⟨rfl, rfl⟩

/-- `M` contains the whole of `N` -/
def Net.subset (N M : Net) : Prop := M.contains N.base = true ∧ M.norm.plen ≤ N.norm.plen

/-- **Monotonicity**: any network containing an intersecting network also intersects. -/
theorem intersects_mono_in (tbl : List Net) (hcov : nonGUCovered tbl = true) (htbl : tableWF tbl = true)
    (N M : Net) (hNwf : Net.WF N) (hM : Net.WF M) (hMcan : Net.canonical M) (hsub : Net.subset N M)
    (h : intersectsIn tbl N = true) : intersectsIn tbl M = true := by
  unfold intersectsIn at h
  simp only [Bool.or_eq_true, Bool.not_eq_eq_eq_not, Bool.not_true, List.any_eq_true] at h
  rcases h with hgu | ⟨r, hrt, hrc | hnr⟩
  · -- N's base is a reserved address inside M
    exact contains_reserved_intersects_in tbl hcov htbl M hM hMcan N.base hsub.1 (by simp [isReservedIn, hgu])
  · exact contains_reserved_intersects_in tbl hcov htbl M hM hMcan N.base hsub.1
      (by unfold isReservedIn; simp only [Bool.or_eq_true, List.any_eq_true]; exact Or.inr ⟨r, hrt, hrc⟩)
  · -- N contains r's base, and M contains N
    unfold intersectsIn
    simp only [Bool.or_eq_true, List.any_eq_true]
    refine Or.inr ⟨r, hrt, Or.inr ?_⟩
    obtain ⟨hw1, hc1⟩ := (contains_iff N r.base).mp hnr
    obtain ⟨hw2, hc2⟩ := (contains_iff M N.base).mp hsub.1
    rw [contains_iff]
    have hwN : N.base.norm.width = N.norm.base.width := by rw [Net.norm_base]
    refine ⟨by rw [hw2, hwN, hw1], ?_⟩
    have hwMN : M.norm.base.width = N.norm.base.width := by rw [hw2, hwN]
    have h3 := cont_shorter N.norm.base.width r.base.norm.val N.norm.base.val N.norm.plen M.norm.plen hsub.2 hNwf.2 hc1
    rw [hwMN, h3, ← hwMN]
    rw [Net.norm_base N]; exact hc2

theorem intersects_mono (N M : Net) (hNwf : Net.WF N) (hM : Net.WF M) (hMcan : Net.canonical M) (hsub : Net.subset N M)
    (h : intersectsReserved N = true) : intersectsReserved M = true :=
  intersects_mono_in reservedNets table_covers_nonGU table_wf.1 N M hNwf hM hMcan hsub h

theorem any_ext {α : Type} (l : List α) (f g : α → Bool) (h : ∀ a ∈ l, f a = g a) : l.any f = l.any g := by
  induction l with
  | nil => rfl
  | cons a l ih =>
    simp only [List.any_cons]
    rw [h a List.mem_cons_self, ih (fun b hb => h b (List.mem_cons_of_mem _ hb))]

/-- **Single-address network = address test.** -/
theorem host_network_in (tbl : List Net) (x : Addr) (p : Nat)
    (hfull : (⟨x, p⟩ : Net).norm.plen = (⟨x, p⟩ : Net).norm.base.width) :
    intersectsIn tbl ⟨x, p⟩ = isReservedIn tbl x := by
  unfold intersectsIn isReservedIn
  simp only []
  congr 1
  apply any_ext
  intro r _
  cases hrc : r.contains x with
  | true => simp
  | false =>
    simp only [Bool.false_or]
    -- a one-address network contains r.base only if r.base is that address, and r contains its own base
    cases hn : (⟨x, p⟩ : Net).contains r.base with
    | false => rfl
    | true =>
      exfalso
      obtain ⟨hw, hc⟩ := (contains_iff _ _).mp hn
      rw [hfull, Nat.sub_self, Nat.pow_zero, Nat.div_one, Nat.div_one] at hc
      have hb : (⟨x, p⟩ : Net).norm.base = x.norm := Net.norm_base _
      have : r.contains x = true := by
        rw [contains_iff, Net.norm_base r]
        rw [hb] at hw hc
        exact ⟨hw.symm, by rw [hc]⟩
      rw [this] at hrc; cases hrc

theorem host_network_v4 (v : Nat) : intersectsReserved ⟨⟨32, v⟩, 32⟩ = isReserved ⟨32, v⟩ :=
  host_network_in reservedNets ⟨32, v⟩ 32 (by simp [Net.norm, Addr.to4])

theorem host_network_v6 (v : Nat) (h : (⟨128, v⟩ : Addr).to4 = none) : intersectsReserved ⟨⟨128, v⟩, 128⟩ = isReserved ⟨128, v⟩ :=
  host_network_in reservedNets ⟨128, v⟩ 128 (by simp [Net.norm, h])

/-- **4-byte and IPv4-mapped forms are classified identically**, as hosts and as networks. -/
theorem to4_mapped (v : Nat) (hv : v < 2 ^ 32) : (⟨128, mappedPrefix * 2 ^ 32 + v⟩ : Addr).to4 = some v := by
  have h1 : (mappedPrefix * 2 ^ 32 + v) / 2 ^ 32 = mappedPrefix := by
    rw [Nat.add_comm, Nat.add_mul_div_right _ _ (Nat.two_pow_pos 32), Nat.div_eq_of_lt hv, Nat.zero_add]
  have h2 : (mappedPrefix * 2 ^ 32 + v) % 2 ^ 32 = v := by
    rw [Nat.add_comm, Nat.add_mul_mod_self_right, Nat.mod_eq_of_lt hv]
  unfold Addr.to4
  simp only [h1, h2, beq_self_eq_true, Bool.and_self, ↓reduceIte]
  rfl

theorem mapped_norm (v : Nat) (hv : v < 2 ^ 32) : (⟨128, mappedPrefix * 2 ^ 32 + v⟩ : Addr).norm = ⟨32, v⟩ := by
  simp only [Addr.norm, to4_mapped v hv]

theorem mapped_eq_host (tbl : List Net) (v : Nat) (hv : v < 2 ^ 32) :
    isReservedIn tbl ⟨128, mappedPrefix * 2 ^ 32 + v⟩ = isReservedIn tbl ⟨32, v⟩ := by
  rw [← isReservedIn_norm tbl ⟨128, _⟩, mapped_norm v hv]

theorem mapped_eq_net (tbl : List Net) (v p : Nat) (hv : v < 2 ^ 32) :
    intersectsIn tbl ⟨⟨128, mappedPrefix * 2 ^ 32 + v⟩, 96 + p⟩ = intersectsIn tbl ⟨⟨32, v⟩, p⟩ := by
  have hn : (⟨⟨128, mappedPrefix * 2 ^ 32 + v⟩, 96 + p⟩ : Net).norm = (⟨⟨32, v⟩, p⟩ : Net).norm := by
    simp only [Net.norm, to4_mapped v hv, Addr.to4_of_32]
    simp
  unfold intersectsIn
  have hgu : Addr.isGlobalUnicast ⟨128, mappedPrefix * 2 ^ 32 + v⟩ = Addr.isGlobalUnicast ⟨32, v⟩ := by
    rw [← Addr.isGlobalUnicast_norm, mapped_norm v hv]
  simp only [hgu]
  congr 1
  apply any_ext
  intro r _
  have c1 : r.contains ⟨128, mappedPrefix * 2 ^ 32 + v⟩ = r.contains ⟨32, v⟩ := by
    rw [← Net.contains_norm_arg, mapped_norm v hv]
  have c2 : (⟨⟨128, mappedPrefix * 2 ^ 32 + v⟩, 96 + p⟩ : Net).contains r.base = (⟨⟨32, v⟩, p⟩ : Net).contains r.base := by
    simp only [Net.contains_eq, hn]
  rw [c1, c2]

/-! ### the special-purpose blocks of the property -/

/-- `S` lies inside table network `r` (same normalised width, shorter-or-equal prefix, same network bits) -/
def coveredBy (S r : Net) : Bool :=
  r.norm.base.width == S.norm.base.width && decide (r.norm.plen ≤ S.norm.plen) && decide (S.norm.plen ≤ S.norm.base.width)
    && cont r.norm.base.width r.norm.base.val r.norm.plen S.norm.base.val

/-- `S` lies inside a non-global-unicast class -/
def inClass (S : Net) (B : Nat × Nat × Nat) : Bool :=
  B.1 == S.norm.base.width && decide (B.2.2 ≤ S.norm.plen) && decide (S.norm.plen ≤ S.norm.base.width)
    && (S.norm.base.width == 32 || S.norm.base.width == 128) && cont B.1 B.2.1 B.2.2 S.norm.base.val

/-- every address of a block that lies inside a table network or inside an excluded class is reserved -/
theorem block_reserved (tbl : List Net) (S : Net)
    (h : (tbl.any (coveredBy S) || nonGUBlocks.any (inClass S)) = true) : ∀ x, S.contains x = true → isReservedIn tbl x = true := by
  intro x hx
  obtain ⟨hw, hc⟩ := (contains_iff S x).mp hx
  unfold isReservedIn
  simp only [Bool.or_eq_true, List.any_eq_true] at h ⊢
  rcases h with ⟨r, hrt, hcov⟩ | ⟨B, hB, hcl⟩
  · right
    refine ⟨r, hrt, ?_⟩
    simp only [coveredBy, Bool.and_eq_true, beq_iff_eq, decide_eq_true_eq] at hcov
    obtain ⟨⟨⟨hwr, hle⟩, hSw⟩, hcb⟩ := hcov
    rw [contains_iff]
    refine ⟨by rw [hwr, hw], ?_⟩
    have := nested S.norm.base.width S.norm.base.val S.norm.plen r.norm.base.val r.norm.plen S.norm.base.val hle hSw (cont_self _ _ _)
      (by rw [← hwr]; exact hcb) x.norm.val (by simp [cont, hc])
    rw [hwr]; simpa [cont] using this
  · left
    simp only [inClass, Bool.and_eq_true, beq_iff_eq, decide_eq_true_eq, Bool.or_eq_true] at hcl
    obtain ⟨⟨⟨⟨hBw, hle⟩, hSw⟩, h32⟩, hcb⟩ := hcl
    have hxw : x.norm.width = 32 ∨ x.norm.width = 128 := by rw [← hw]; exact h32
    have := nested S.norm.base.width S.norm.base.val S.norm.plen B.2.1 B.2.2 S.norm.base.val hle hSw (cont_self _ _ _)
      (by rw [← hBw]; exact hcb) x.norm.val (by simp [cont, hc])
    have hng := nonGU_of_block x hxw B hB (by rw [hBw, hw]) (by rw [hBw]; exact this)
    simp [hng]

/-- the special-purpose blocks named by the property, as (width, base, prefix):
    10/8, 172.16/12, 192.168/16, 127/8, 169.254/16, 100.64/10, 192.0.2/24, 198.51.100/24, 203.0.113/24,
    198.18/15, 224/4, 240/4, 255.255.255.255/32, 0.0.0.0/32; ::1/128, fc00::/7, fe80::/10, ff00::/8,
    2001:db8::/32, 2002::/16, 100::/64, ::/128 -/
def specialBlocks : List Net :=
  [ ⟨⟨32, 167772160⟩, 8⟩, ⟨⟨32, 2886729728⟩, 12⟩, ⟨⟨32, 3232235520⟩, 16⟩, ⟨⟨32, 2130706432⟩, 8⟩, ⟨⟨32, 2851995648⟩, 16⟩,
    ⟨⟨32, 1681915904⟩, 10⟩, ⟨⟨32, 3221225984⟩, 24⟩, ⟨⟨32, 3325256704⟩, 24⟩, ⟨⟨32, 3405803776⟩, 24⟩, ⟨⟨32, 3323068416⟩, 15⟩,
    ⟨⟨32, 3758096384⟩, 4⟩, ⟨⟨32, 4026531840⟩, 4⟩, ⟨⟨32, 4294967295⟩, 32⟩, ⟨⟨32, 0⟩, 32⟩,
    ⟨⟨128, 1⟩, 128⟩, ⟨⟨128, 334965454937798799971759379190646833152⟩, 7⟩, ⟨⟨128, 338288524927261089654018896841347694592⟩, 10⟩,
    ⟨⟨128, 338953138925153547590470800371487866880⟩, 8⟩, ⟨⟨128, 42540766411282592856903984951653826560⟩, 32⟩,
    ⟨⟨128, 42545680458834377588178886921629466624⟩, 16⟩, ⟨⟨128, 1329227995784915872903807060280344576⟩, 64⟩, ⟨⟨128, 0⟩, 128⟩ ]

/-- **All addresses of every special-purpose block are reserved** (each block lies inside a table
    network or inside a class `IsGlobalUnicast` excludes). -/
theorem special_blocks_covered :
    specialBlocks.all (fun S => reservedNets.any (coveredBy S) || nonGUBlocks.any (inClass S)) = true := by decide +kernel

theorem special_blocks_reserved (S : Net) (hS : S ∈ specialBlocks) (x : Addr) (hx : S.contains x = true) : isReserved x = true :=
  block_reserved reservedNets S (List.all_eq_true.mp special_blocks_covered S hS) x hx

/-- well-known public addresses are not reserved (tests of the model against the table, labelled as such):
    8.8.8.8, 1.1.1.1, 93.184.216.34, 2001:4860:4860::8888, 2606:4700:4700::1111 — also in IPv4-mapped form -/
theorem public_examples :
    [ (⟨32, 134744072⟩ : Addr), ⟨32, 16843009⟩, ⟨32, 1572395042⟩, ⟨128, 42541956123769884636017138956568135816⟩,
      ⟨128, 50543257694033307102031451402929180945⟩, ⟨128, 281470816487432⟩ ].all (fun a => !isReserved a) = true := by decide +kernel

/-- non-vacuity: 126.0.0.0/7 is well-formed, canonical, contains 127.0.0.1 (reserved) — and intersects -/
example : Net.WF ⟨⟨32, 2113929216⟩, 7⟩ ∧ Net.canonical ⟨⟨32, 2113929216⟩, 7⟩
    ∧ (⟨⟨32, 2113929216⟩, 7⟩ : Net).contains ⟨32, 2130706433⟩ = true ∧ isReserved ⟨32, 2130706433⟩ = true
    ∧ intersectsReserved ⟨⟨32, 2113929216⟩, 7⟩ = true := by
  refine ⟨by simp [Net.WF, Net.norm, Addr.to4], by simp [Net.canonical, Net.norm, Addr.to4], by decide +kernel, by decide +kernel, by decide +kernel⟩

end Zl.C19
