/-
  C20 — Duplicated rules never contradict each other.

  What is proved: (1) two first-match scans over mirrored lists agree whenever their per-element
  tests agree on corresponding elements (so agreement of a SAN/IAN or subject/issuer pair reduces to
  agreement on single elements); (2) a stricter threshold companion fires whenever the error-level
  limit is exceeded; (3) the pair table of the specification refers to lints that exist.
  Partial: per-element agreement of two Go rule bodies is NOT provable without translating the bodies;
  it is checked by the pair search on single atoms (every GeneralName kind and content class) with the
  real lints as oracles, then on lists, on mirrored DNs, on the DSA / AIA pairs over the corpus and on
  threshold sweeps.
-/
import ZlProofs.Props.C17
import ZlProofs.Lemmas.Names
import ZlModel.Names
import ZlProofs.Lemmas.Thresholds
import ZlModel.Generated.Registry
namespace Zl.C20
open Zl Generated

/-- **Mirror agreement**: if the element tests of the two copies agree on corresponding elements
    (`σ` maps an entry of the first field to the entry of the mirrored field), the two scans agree
    on mirrored lists — whatever the lists are. -/
theorem mirror_agree {α β : Type} (fA : α → Option Status) (fB : β → Option Status) (σ : α → β) (dflt : Status)
    (hel : ∀ x, fA x = fB (σ x)) (l : List α) : scan fA dflt l = scan fB dflt (l.map σ) := by
  induction l with
  | nil => rfl
  | cons x xs ih =>
    simp only [List.map_cons, scan]
    rw [← hel x]
    cases fA x with
    | some s => rfl
    | none => exact ih

/-- where the two copies deliberately carry different severities: finding ⇔ finding -/
theorem mirror_agree_finding {α β : Type} (fA : α → Option Status) (fB : β → Option Status) (σ : α → β)
    (hel : ∀ x, (fA x).isSome = (fB (σ x)).isSome) (l : List α) :
    (l.any (fun x => (fA x).isSome)) = ((l.map σ).any (fun y => (fB y).isSome)) := by
  induction l with
  | nil => rfl
  | cons x xs ih => simp only [List.map_cons, List.any_cons, hel x, ih]

/-- **Threshold companions**: with a warning limit not above the error limit, exceeding the error
    limit implies exceeding the warning limit (398/397 days in seconds, 32768/64 characters). -/
theorem threshold_implies (kErr kWarn m : Nat) (hk : kWarn ≤ kErr) (h : m > kErr) : m > kWarn := by omega

theorem validity_398_implies_397 (seconds : Nat) (h : seconds > 398 * 86400) : seconds > 397 * 86400 :=
  threshold_implies _ _ _ (by decide) h

theorem name_length_implies (n : Nat) (h : n > 32768) : n > 64 := threshold_implies _ _ _ (by decide) h

/-- the specification's pair table -/
def pairs : List (String × String) :=
  [ ("e_ext_san_dns_not_ia5_string", "e_ext_ian_dns_not_ia5_string"), ("e_ext_san_empty_name", "e_ext_ian_empty_name"),
    ("e_ext_san_no_entries", "e_ext_ian_no_entries"), ("e_ext_san_rfc822_format_invalid", "e_ext_ian_rfc822_format_invalid"),
    ("e_ext_san_space_dns_name", "e_ext_ian_space_dns_name"), ("e_ext_san_uri_format_invalid", "e_ext_ian_uri_format_invalid"),
    ("e_ext_san_uri_host_not_fqdn_or_ip", "e_ext_ian_uri_host_not_fqdn_or_ip"), ("e_ext_san_uri_not_ia5", "e_ext_ian_uri_not_ia5"),
    ("e_ext_san_uri_relative", "e_ext_ian_uri_relative"),
    ("e_rfc_dnsname_empty_label", "e_dnsname_empty_label"), ("e_rfc_dnsname_hyphen_in_sld", "e_dnsname_hyphen_in_sld"),
    ("e_rfc_dnsname_label_too_long", "e_dnsname_label_too_long"), ("e_rfc_dnsname_underscore_in_sld", "e_dnsname_underscore_in_sld"),
    ("w_rfc_dnsname_underscore_in_trd", "w_dnsname_underscore_in_trd"),
    ("w_subject_dn_leading_whitespace", "w_issuer_dn_leading_whitespace"), ("w_subject_dn_trailing_whitespace", "w_issuer_dn_trailing_whitespace"),
    ("n_multiple_subject_rdn", "w_multiple_issuer_rdn"), ("e_subject_dn_country_not_printable_string", "e_issuer_dn_country_not_printable_string"),
    ("e_prohibit_dsa_usage", "e_br_prohibit_dsa_usage"), ("w_sub_cert_aia_contains_internal_names", "w_smime_aia_contains_internal_names"),
    ("e_tls_server_cert_valid_time_longer_than_398_days", "w_tls_server_cert_valid_time_longer_than_397_days"),
    ("e_subject_given_name_max_length", "w_subject_given_name_recommended_max_length"),
    ("e_subject_surname_max_length", "w_subject_surname_recommended_max_length") ]

/-- every lint named in the pair table is registered, as a certificate lint -/
theorem pairs_registered :
    pairs.all (fun p => runtimeLints.any (fun l => l.name == p.1 && l.kind == 0) && runtimeLints.any (fun l => l.name == p.2 && l.kind == 0)) = true := by
  decide +kernel

/-- the extracted verdict sets of the two members of a mirror pair with the same prefix coincide
    (a copy that gained or lost a return status has drifted) -/
def statusesOf (n : String) : List Int := match registrations.find? (fun r => r.name == n) with | some r => r.statuses | none => []

theorem mirror_status_sets_agree :
    (pairs.take 18).all (fun p => p.1.toList.head? != p.2.toList.head? || statusesOf p.1 == statusesOf p.2) = true := by decide +kernel

/-- non-vacuity -/
example : scan (fun (n : Nat) => if n == 0 then some Status.error else none) Status.pass [1, 0, 2]
    = scan (fun (s : String) => if s == "0" then some Status.error else none) Status.pass ([1, 0, 2].map toString) := by decide


/-! ## Modelled pairs: per-element agreement *proved*, not searched

  For the four pairs below both rule bodies are modelled (ZlModel/Names.lean, tied to the real lints by the
  `names` correspondence), so their agreement is a theorem instead of a search result. -/
section ModelledPairs
open Zl.Names

/-- RFC / CABF "label too long": on the same content — a subject CN that is empty, an IP address, or one of
    the SAN names — the two copies return the same status, for **every** name list. -/
theorem label_pair_agree (v : View) (h : v.cn = [] ∨ v.cnIsIP = true ∨ v.cn ∈ v.dns) :
    brLabelTooLong v = rfcLabelTooLong v := by
  unfold brLabelTooLong rfcLabelTooLong cnJudged
  rcases h with h | h | h
  · simp [h]
  · simp [h]
  · by_cases hl : labelTooLong v.cn = true
    · have : v.dns.any labelTooLong = true := List.any_eq_true.mpr ⟨v.cn, h, hl⟩
      simp [anyFinding, this]
    · simp [hl]

/-- …and whatever the CN is, the CABF copy is at least as strict as the RFC copy (the extra requirement on the
    CN can add a finding, never remove one) -/
theorem label_pair_implies (v : View) (h : rfcLabelTooLong v = Status.error) : brLabelTooLong v = Status.error := by
  unfold brLabelTooLong
  split
  · rfl
  · exact h

theorem empty_label_pair_agree (v : View) (h : v.cn = [] ∨ v.cnIsIP = true ∨ v.cn ∈ v.dns) :
    brEmptyLabel v = rfcEmptyLabel v := by
  unfold brEmptyLabel rfcEmptyLabel cnJudged
  rcases h with h | h | h
  · simp [h]
  · simp [h]
  · by_cases hl : hasEmptyLabel v.cn = true
    · have : v.dns.any hasEmptyLabel = true := List.any_eq_true.mpr ⟨v.cn, h, hl⟩
      simp [anyFinding, this]
    · simp [hl]

theorem empty_label_pair_implies (v : View) (h : rfcEmptyLabel v = Status.error) : brEmptyLabel v = Status.error := by
  unfold brEmptyLabel
  split
  · rfl
  · exact h

/-- SAN / IAN: the same names in both extensions give the same verdicts -/
theorem space_pair_agree (v : View) (h : v.ianDns = v.dns) : ianSpaceDNS v = sanSpaceDNS v := by
  unfold ianSpaceDNS sanSpaceDNS; rw [h]

theorem uri_ia5_pair_agree (v : View) (h : v.ianUris = v.uris) : ianUriNotIA5 v = sanUriNotIA5 v := by
  unfold ianUriNotIA5 sanUriNotIA5; rw [h]

/-- what "label too long" means: some dot-free stretch between dots (or the ends) exceeds 63 octets; the labels
    are exactly the pieces that join back to the name -/
theorem labelTooLong_iff (d : Bytes) :
    labelTooLong d = true ↔ ∃ l ∈ splitDot d, 63 < l.length ∧ 46 ∉ l := by
  unfold labelTooLong
  simp only [List.any_eq_true, decide_eq_true_eq]
  constructor
  · rintro ⟨l, hl, hlen⟩; exact ⟨l, hl, hlen, splitDot_no_dot d l hl⟩
  · rintro ⟨l, hl, hlen, _⟩; exact ⟨l, hl, hlen⟩

theorem labels_rejoin (d : Bytes) : joinDot (splitDot d) = d := joinDot_splitDot d

/-- boundary: 63 octets pass, 64 do not — whatever the octets are (ASCII or not) -/
example : labelTooLong (List.replicate 63 97 ++ [46, 99]) = false := by decide
example : labelTooLong (List.replicate 64 97 ++ [46, 99]) = true := by decide
example : labelTooLong (List.replicate 32 195 ++ List.replicate 32 169) = true := by decide
example : hasEmptyLabel [97, 46, 46, 98] = true ∧ hasEmptyLabel [97, 46, 98] = false ∧ hasEmptyLabel [] = true := by decide

end ModelledPairs


/-! ## Modelled threshold companions -/
section ModelledThresholds
open Zl.Thresholds

/-- **398 / 397 days, as the two rule bodies compute it** (inclusive validity, Go's saturating duration): whenever
    the error-level lint fires the warning-level companion fires, for every pair of instants. -/
theorem validity_pair_implies (nb na : Int) (h : validity398 nb na = Status.error) : validity397 nb na = Status.warn := by
  unfold validity398 at h
  unfold validity397
  split at h
  · rename_i hgt
    have : certValidity nb na > 397 * appleDayLength := by
      unfold appleDayLength second at hgt ⊢; omega
    simp [this]
  · cases h

/-- the limit is inclusive of both end instants: notAfter = notBefore + 398 days − 1 s passes, one second more errors -/
example : validity398 0 (398 * appleDayLength - second) = Status.pass ∧ validity398 0 (398 * appleDayLength) = Status.error := by decide
example : validity397 0 (397 * appleDayLength - second) = Status.pass ∧ validity397 0 (397 * appleDayLength) = Status.warn := by decide
/-- beyond the range of a Go Duration (≈ 292 years) the difference saturates and still exceeds both limits -/
example : validity398 0 (300 * 365 * appleDayLength) = Status.error := by decide

/-- **given name / surname 32768 / 64 characters, as the rule bodies count them** (utf8.RuneCountInString) -/
theorem name_length_pair_implies (names : List (List Nat)) (h : nameTooLong 32768 Status.error names = Status.error) :
    nameTooLong 64 Status.warn names = Status.warn := by
  unfold nameTooLong anyFinding at h ⊢
  split at h
  · rename_i hany
    obtain ⟨n, hn, hgt⟩ := List.any_eq_true.mp hany
    have hgt' : 32768 < runeCount n := by simpa using hgt
    have : names.any (fun n => decide (64 < runeCount n)) = true :=
      List.any_eq_true.mpr ⟨n, hn, by simp; omega⟩
    simp [this]
  · cases h

/-- characters are never more than octets, and at most four octets make one character — so a limit in
    characters and the same limit in octets differ exactly on non-ASCII content (the C20 drift between a copy
    that counts runes and a copy that counts bytes) -/
theorem runes_le_octets (bs : List Nat) : runeCount bs ≤ bs.length := runeCount_le_length bs
theorem octets_le_four_runes (bs : List Nat) : bs.length ≤ 4 * runeCount bs := length_le_four_mul_runeCount bs
theorem runes_eq_octets_ascii (bs : List Nat) (h : ∀ b ∈ bs, b < 128) : runeCount bs = bs.length := runeCount_ascii bs h

/-- invalid and truncated sequences count one rune per byte; valid ones one per sequence -/
example : runeCount [0xC3, 0xA9] = 1 ∧ runeCount [0xC3] = 1 ∧ runeCount [0xFF, 0xFF] = 2 ∧ runeCount [0xE2, 0x82, 0xAC] = 1
    ∧ runeCount [0xE2, 0x82] = 2 ∧ runeCount [0xED, 0xA0, 0x80] = 3 ∧ runeCount [0xF0, 0x9F, 0x98, 0x80] = 1 := by decide

end ModelledThresholds

end Zl.C20
