/-
  C20 — Duplicated rules never contradict each other.

  What is proved: (1) two first-match scans over mirrored lists agree whenever their per-element
  tests agree on corresponding elements (so agreement of a SAN/IAN or subject/issuer pair reduces to
  agreement on single elements); (2) a stricter threshold companion fires whenever the error-level
  limit is exceeded; (3) the pair table of the specification refers to lints that exist.
  Partial: per-element agreement of two Go rule bodies is NOT provable without translating the bodies;
  it is checked by the pair search on single atoms (every GeneralName kind and content class) with the
  real lints as oracles, then on lists, on mirrored DNs, on the DSA / AIA pairs over the corpus and on
  threshold sweeps.
-/
import ZlProofs.Props.C17
import ZlModel.Generated.Registry
namespace Zl.C20
open Zl Generated

/-- **Mirror agreement**: if the element tests of the two copies agree on corresponding elements
    (`σ` maps an entry of the first field to the entry of the mirrored field), the two scans agree
    on mirrored lists — whatever the lists are. -/
theorem mirror_agree {α β : Type} (fA : α → Option Status) (fB : β → Option Status) (σ : α → β) (dflt : Status)
    (hel : ∀ x, fA x = fB (σ x)) (l : List α) : scan fA dflt l = scan fB dflt (l.map σ) := by
  induction l with
  | nil => rfl
  | cons x xs ih =>
    simp only [List.map_cons, scan]
    rw [← hel x]
    cases fA x with
    | some s => rfl
    | none => exact ih

/-- where the two copies deliberately carry different severities: finding ⇔ finding -/
theorem mirror_agree_finding {α β : Type} (fA : α → Option Status) (fB : β → Option Status) (σ : α → β)
    (hel : ∀ x, (fA x).isSome = (fB (σ x)).isSome) (l : List α) :
    (l.any (fun x => (fA x).isSome)) = ((l.map σ).any (fun y => (fB y).isSome)) := by
  induction l with
  | nil => rfl
  | cons x xs ih => simp only [List.map_cons, List.any_cons, hel x, ih]

/-- **Threshold companions**: with a warning limit not above the error limit, exceeding the error
    limit implies exceeding the warning limit (398/397 days in seconds, 32768/64 characters). -/
theorem threshold_implies (kErr kWarn m : Nat) (hk : kWarn ≤ kErr) (h : m > kErr) : m > kWarn := by omega

theorem validity_398_implies_397 (seconds : Nat) (h : seconds > 398 * 86400) : seconds > 397 * 86400 :=
  threshold_implies _ _ _ (by decide) h

theorem name_length_implies (n : Nat) (h : n > 32768) : n > 64 := threshold_implies _ _ _ (by decide) h

/-- the specification's pair table -/
def pairs : List (String × String) :=
  [ ("e_ext_san_dns_not_ia5_string", "e_ext_ian_dns_not_ia5_string"), ("e_ext_san_empty_name", "e_ext_ian_empty_name"),
    ("e_ext_san_no_entries", "e_ext_ian_no_entries"), ("e_ext_san_rfc822_format_invalid", "e_ext_ian_rfc822_format_invalid"),
    ("e_ext_san_space_dns_name", "e_ext_ian_space_dns_name"), ("e_ext_san_uri_format_invalid", "e_ext_ian_uri_format_invalid"),
    ("e_ext_san_uri_host_not_fqdn_or_ip", "e_ext_ian_uri_host_not_fqdn_or_ip"), ("e_ext_san_uri_not_ia5", "e_ext_ian_uri_not_ia5"),
    ("e_ext_san_uri_relative", "e_ext_ian_uri_relative"),
    ("e_rfc_dnsname_empty_label", "e_dnsname_empty_label"), ("e_rfc_dnsname_hyphen_in_sld", "e_dnsname_hyphen_in_sld"),
    ("e_rfc_dnsname_label_too_long", "e_dnsname_label_too_long"), ("e_rfc_dnsname_underscore_in_sld", "e_dnsname_underscore_in_sld"),
    ("w_rfc_dnsname_underscore_in_trd", "w_dnsname_underscore_in_trd"),
    ("w_subject_dn_leading_whitespace", "w_issuer_dn_leading_whitespace"), ("w_subject_dn_trailing_whitespace", "w_issuer_dn_trailing_whitespace"),
    ("n_multiple_subject_rdn", "w_multiple_issuer_rdn"), ("e_subject_dn_country_not_printable_string", "e_issuer_dn_country_not_printable_string"),
    ("e_prohibit_dsa_usage", "e_br_prohibit_dsa_usage"), ("w_sub_cert_aia_contains_internal_names", "w_smime_aia_contains_internal_names"),
    ("e_tls_server_cert_valid_time_longer_than_398_days", "w_tls_server_cert_valid_time_longer_than_397_days"),
    ("e_subject_given_name_max_length", "w_subject_given_name_recommended_max_length"),
    ("e_subject_surname_max_length", "w_subject_surname_recommended_max_length") ]

/-- every lint named in the pair table is registered, as a certificate lint -/
theorem pairs_registered :
    pairs.all (fun p => runtimeLints.any (fun l => l.name == p.1 && l.kind == 0) && runtimeLints.any (fun l => l.name == p.2 && l.kind == 0)) = true := by
  decide +kernel

/-- the extracted verdict sets of the two members of a mirror pair with the same prefix coincide
    (a copy that gained or lost a return status has drifted) -/
def statusesOf (n : String) : List Int := match registrations.find? (fun r => r.name == n) with | some r => r.statuses | none => []

theorem mirror_status_sets_agree :
    (pairs.take 18).all (fun p => p.1.toList.head? != p.2.toList.head? || statusesOf p.1 == statusesOf p.2) = true := by decide +kernel

/-- non-vacuity -/
example : scan (fun (n : Nat) => if n == 0 then some Status.error else none) Status.pass [1, 0, 2]
    = scan (fun (s : String) => if s == "0" then some Status.error else none) Status.pass ([1, 0, 2].map toString) := by decide

end Zl.C20
