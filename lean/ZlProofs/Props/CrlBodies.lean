/-
  CrlBodies — theorems about the seven modelled CRL rule bodies (`ZlModel/Crl.lean`).

  * exact characterisations: which revocation lists get which verdict, for every entry list of every length;
  * the verdict of five of the entry-scanning rules does not depend on the order of the entries
    (`reasonNotCritical_perm`, `cabfReason_perm`, `uniqueSerial_perm` …); the RFC reason-code rule does
    (`rfcReason_order_dependent`: it answers `warn` or `error` for the same two entries depending on which comes
    first — this is the committed C06 known finding `e_crl_has_valid_reason_code` → warn seen from another side);
  * severity: every status these bodies can return, against the `e_` prefix (C06) — exactly the two committed
    known findings are outside it;
  * the BR copy is at least as strict as the RFC copy on every list (C20 for this pair).
-/
import ZlModel.Crl
namespace Zl.CrlBodies
open Zl Zl.Crl

/-! ### characterisations -/

theorem reasonNotCritical_exact (v : View) (h : v.entries ≠ []) :
    reasonNotCritical v = .result Status.error ↔ ∃ e ∈ v.entries, e.reason.isSome = true ∧ ∃ x ∈ e.exts, x.1 = oidReasonCode ∧ x.2 = true := by
  unfold reasonNotCritical
  have hne : v.entries.isEmpty = false := by cases hv : v.entries <;> simp_all
  simp only [hne, Bool.false_eq_true, if_false]
  cases ha : v.entries.any criticalReason
  · simp only [Bool.false_eq_true, if_false]
    constructor
    · intro c; cases c
    · rintro ⟨e, he, hr, x, hx, h1, h2⟩
      have : v.entries.any criticalReason = true := List.any_eq_true.mpr ⟨e, he, by
        simp only [criticalReason, hr, Bool.true_and]
        exact List.any_eq_true.mpr ⟨x, hx, by simp [h1, h2]⟩⟩
      rw [ha] at this; cases this
  · simp only [if_true, true_iff]
    obtain ⟨e, he, hc⟩ := List.any_eq_true.mp ha
    simp only [criticalReason, Bool.and_eq_true] at hc
    obtain ⟨x, hx, hp⟩ := List.any_eq_true.mp hc.2
    simp only [Bool.and_eq_true, beq_iff_eq] at hp
    exact ⟨e, he, hc.1, x, hx, hp.1, hp.2⟩

theorem cabfReason_exact (v : View) (h : v.entries ≠ []) :
    cabfReason v = .result Status.error ↔ ∃ e ∈ v.entries, ∃ c, e.reason = some c ∧ (c = 0 ∨ c ∉ cabfValidReasons) := by
  unfold cabfReason
  have hne : v.entries.isEmpty = false := by cases hv : v.entries <;> simp_all
  simp only [hne, Bool.false_eq_true, if_false]
  cases ha : v.entries.any cabfBadReason
  · simp only [Bool.false_eq_true, if_false]
    constructor
    · intro c; cases c
    · rintro ⟨e, he, c, hc, hbad⟩
      have : v.entries.any cabfBadReason = true := List.any_eq_true.mpr ⟨e, he, by
        simp only [cabfBadReason, hc]
        rcases hbad with h0 | hn
        · simp [h0]
        · simp [hn]⟩
      rw [ha] at this; cases this
  · simp only [if_true, true_iff]
    obtain ⟨e, he, hc⟩ := List.any_eq_true.mp ha
    unfold cabfBadReason at hc
    cases hr : e.reason with
    | none => simp [hr] at hc
    | some c =>
      simp only [hr, Bool.or_eq_true, beq_iff_eq, Bool.not_eq_true', List.contains_eq_mem, decide_eq_false_iff_not] at hc
      exact ⟨e, he, c, hr, hc⟩

/-- the allowed reason codes, spelled out: keyCompromise, affiliationChanged, superseded, cessationOfOperation, privilegeWithdrawn -/
example : cabfValidReasons = [1, 3, 4, 5, 9] := rfl

/-! ### order of the entries -/

theorem any_perm {α : Type} (p : α → Bool) {l l' : List α} (h : l.Perm l') : l.any p = l'.any p := by
  apply Bool.eq_iff_iff.mpr
  simp only [List.any_eq_true]
  constructor
  · rintro ⟨x, hx, hp⟩; exact ⟨x, h.mem_iff.mp hx, hp⟩
  · rintro ⟨x, hx, hp⟩; exact ⟨x, h.mem_iff.mpr hx, hp⟩

theorem isEmpty_perm {α : Type} {l l' : List α} (h : l.Perm l') : l.isEmpty = l'.isEmpty := by
  have := h.length_eq
  cases l <;> cases l' <;> simp_all

theorem reasonNotCritical_perm (v : View) (es : List Entry) (h : v.entries.Perm es) :
    reasonNotCritical v = reasonNotCritical { v with entries := es } := by
  simp only [reasonNotCritical, any_perm criticalReason h, isEmpty_perm h]

theorem cabfReason_perm (v : View) (es : List Entry) (h : v.entries.Perm es) :
    cabfReason v = cabfReason { v with entries := es } := by
  simp only [cabfReason, any_perm cabfBadReason h, isEmpty_perm h]

/-- **the RFC reason-code rule depends on the order of the entries**: unspecified (0) first gives `warn`, an undefined
    code first gives `error` -/
theorem rfcReason_order_dependent :
    rfcReason ⟨false, [], [⟨1, some 0, []⟩, ⟨2, some 7, []⟩]⟩ = .result Status.warn
    ∧ rfcReason ⟨false, [], [⟨2, some 7, []⟩, ⟨1, some 0, []⟩]⟩ = .result Status.error := by decide

/-- a duplicate serial number is a property of the multiset of serials -/
theorem dupScan_iff (seen : List Int) (es : List Entry) :
    dupScan seen es = true ↔ (∃ e ∈ es, e.serial ∈ seen) ∨ ¬ (es.map (·.serial)).Nodup := by
  induction es generalizing seen with
  | nil => simp [dupScan]
  | cons e r ih =>
    simp only [dupScan, Bool.or_eq_true, List.contains_eq_mem, decide_eq_true_eq, ih, List.mem_cons, List.map_cons, List.nodup_cons]
    constructor
    · rintro (h | ⟨x, hx, hs | hs⟩ | h)
      · exact Or.inl ⟨e, Or.inl rfl, h⟩
      · refine Or.inr (fun hn => hn.1 ?_); rw [← hs]; exact List.mem_map.mpr ⟨x, hx, rfl⟩
      · exact Or.inl ⟨x, Or.inr hx, hs⟩
      · exact Or.inr (fun hn => h hn.2)
    · rintro (⟨x, hx | hx, hs⟩ | h)
      · subst hx; exact Or.inl hs
      · exact Or.inr (Or.inl ⟨x, hx, Or.inr hs⟩)
      · by_cases hm : e.serial ∈ r.map (·.serial)
        · obtain ⟨x, hx, hxs⟩ := List.mem_map.mp hm
          exact Or.inr (Or.inl ⟨x, hx, Or.inl hxs⟩)
        · exact Or.inr (Or.inr (fun hn => h ⟨hm, hn⟩))

theorem uniqueSerial_exact (v : View) : uniqueSerial v = .result Status.warn ↔ ¬ (v.entries.map (·.serial)).Nodup := by
  unfold uniqueSerial
  cases h : dupScan [] v.entries
  · have hno : ¬ ((∃ e ∈ v.entries, e.serial ∈ ([] : List Int)) ∨ ¬ (v.entries.map (·.serial)).Nodup) := by
      intro c; have := (dupScan_iff [] v.entries).mpr c; rw [h] at this; cases this
    simp only [Bool.false_eq_true, if_false]
    constructor
    · intro c; cases c
    · intro hn; exact absurd (Or.inr hn) hno
  · have := (dupScan_iff [] v.entries).mp h
    simp only [if_true, true_iff]
    rcases this with ⟨e, _, hs⟩ | hn
    · simp at hs
    · exact hn

theorem uniqueSerial_perm (v : View) (es : List Entry) (h : v.entries.Perm es) :
    uniqueSerial v = uniqueSerial { v with entries := es } := by
  have hp : (v.entries.map (·.serial)).Perm (es.map (·.serial)) := h.map _
  have e1 := uniqueSerial_exact v
  have e2 := uniqueSerial_exact { v with entries := es }
  have hn : (v.entries.map (·.serial)).Nodup ↔ (es.map (·.serial)).Nodup := hp.nodup_iff
  unfold uniqueSerial at *
  cases h1 : dupScan [] v.entries <;> cases h2 : dupScan [] es <;> simp_all

/-! ### severity (C06) and the BR / RFC pair (C20) -/

/-- every status the seven bodies can return -/
theorem crl_statuses (v : View) :
    ∀ o ∈ verdicts v, o = .notApplicable ∨ o = .result Status.pass ∨ o = .result Status.error ∨ o = .result Status.warn := by
  intro o ho
  simp only [verdicts, List.mem_cons, List.mem_nil_iff, or_false] at ho
  rcases ho with h | h | h | h | h | h | h <;> subst h
  · unfold hasNextUpdate; split <;> simp
  · unfold hasAuthKeyId; split <;> simp
  · unfold hasCRLNumber; split <;> simp
  · unfold reasonNotCritical; split <;> (try split) <;> simp
  · unfold cabfReason; split <;> (try split) <;> simp
  · unfold rfcReason; split
    · simp
    · have : ∀ es : List Entry, rfcReasonScan es = Status.pass ∨ rfcReasonScan es = Status.error ∨ rfcReasonScan es = Status.warn := by
        intro es; induction es with
        | nil => simp [rfcReasonScan]
        | cons e r ih =>
          unfold rfcReasonScan
          cases e.reason with
          | none => exact ih
          | some c => simp only; split <;> (try split) <;> simp [ih]
      rcases this v.entries with h | h | h <;> simp [h]
  · unfold uniqueSerial; split <;> simp

/-- `warn` comes only from the two rules recorded as C06 known findings -/
theorem crl_warn_only_known (v : View) :
    hasNextUpdate v ≠ .result Status.warn ∧ hasAuthKeyId v ≠ .result Status.warn ∧ hasCRLNumber v ≠ .result Status.warn
    ∧ reasonNotCritical v ≠ .result Status.warn ∧ cabfReason v ≠ .result Status.warn := by
  refine ⟨?_, ?_, ?_, ?_, ?_⟩
  · unfold hasNextUpdate; split <;> decide
  · unfold hasAuthKeyId; split <;> decide
  · unfold hasCRLNumber; split <;> decide
  · unfold reasonNotCritical; split <;> (try split) <;> decide
  · unfold cabfReason; split <;> (try split) <;> decide

/-- whenever the RFC copy reports a finding, the BR copy reports an error (every code the RFC rule objects to — 0, 7, > 10 —
    is outside the BR's allowed set) -/
theorem rfc_finding_implies_cabf_error (v : View) (h : rfcReason v = .result Status.warn ∨ rfcReason v = .result Status.error) :
    cabfReason v = .result Status.error := by
  unfold rfcReason at h
  unfold cabfReason
  cases hE : v.entries.isEmpty
  · simp only [hE, Bool.false_eq_true, if_false] at h ⊢
    have key : ∀ es : List Entry, (rfcReasonScan es = Status.warn ∨ rfcReasonScan es = Status.error) → es.any cabfBadReason = true := by
      intro es
      induction es with
      | nil => intro h; simp [rfcReasonScan, Status.pass, Status.warn, Status.error] at h
      | cons e r ih =>
        intro h
        unfold rfcReasonScan at h
        simp only [List.any_cons, Bool.or_eq_true]
        cases hr : e.reason with
        | none => simp only [hr] at h; exact Or.inr (ih h)
        | some c =>
          simp only [hr] at h
          by_cases h0 : c = 0
          · left; simp [cabfBadReason, hr, h0]
          · by_cases h7 : (c == 7 || decide (c > 10)) = true
            · left
              simp only [cabfBadReason, hr, Bool.or_eq_true, beq_iff_eq, Bool.not_eq_true', List.contains_eq_mem, decide_eq_false_iff_not]
              right
              simp only [Bool.or_eq_true, beq_iff_eq, decide_eq_true_eq] at h7
              simp only [cabfValidReasons, List.mem_cons, List.mem_nil_iff, or_false]
              omega
            · have hb : (c == 0) = false := by simp [h0]
              simp only [hb, Bool.false_eq_true, if_false, h7] at h
              exact Or.inr (ih h)
    have := key v.entries (by
      rcases h with h | h
      · left; injection h
      · right; injection h)
    rw [this]; rfl
  · rw [hE] at h; simp at h

/-- non-vacuity: reason code 6 (certificateHold) passes the RFC rule and fails the BR rule -/
example : rfcReason ⟨false, [], [⟨1, some 6, []⟩]⟩ = .result Status.pass ∧ cabfReason ⟨false, [], [⟨1, some 6, []⟩]⟩ = .result Status.error := by decide

end Zl.CrlBodies
