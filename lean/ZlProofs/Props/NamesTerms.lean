/-
  NamesTerms — the duplicated DNS-label rules (C20) and their order independence (C17), restated about the rule terms
  the translator regenerates from the Go source on every run.

  `ZlModel/Names.lean` holds hand-written models of these bodies (tied by the `names` correspondence). Here the same
  statements are made about `Generated.bodyRules`:

    1. `label_bodies` (kernel evaluation): the RFC copies of "label too long" / "empty label", as they read in /repo now,
       *are* the one-loop terms below, and the CA/B-Forum copies *are* "judge the common name first (unless it is empty
       or an IP address), then do exactly what the RFC copy does";
    2. `anyLabel_tooLong`, `anyLabel_empty`: the element predicates of those terms are the functions of `Names.lean`
       (so the hand model and the regenerated term are the same function, for every string);
    3. `br_agrees_with_rfc`: on every certificate the two copies of a rule reach the same conclusion unless the
       common name is judged and is itself offending — in which case the BR copy reports the error (an additional
       requirement, not a contradiction) — and `rfc_error_implies_br_error`.

  The common-name test `net.ParseIP(cn) != nil` is a parameter (`Env`): the statements hold for every environment.
-/
import ZlProofs.Props.Bodies
namespace Zl.NamesTerms
open Zl Zl.LL Zl.Bodies Zl.Generated

def fDNS : Nat := fieldId "DNSNames"
def fCN : Nat := fieldId "Subject.CommonName"
def idParseIPnil : Nat := bodyExternPreds.findIdx (· == "net.ParseIP.nil")

theorem ids_present : fDNS < bodyFieldNames.length ∧ fCN < bodyFieldNames.length ∧ idParseIPnil < bodyExternPreds.length := by
  decide +kernel

def bodyOf (name : String) : Option Stmt := (ruleNamed name).map (·.body)

def tooLongP : SPred := .anyLabel (.lenCmp .gt 63)
def emptyP : SPred := .anyLabel (.eq [])

/-- `for _, dns := range c.DNSNames { if P(dns) { return Error } }; return Pass` -/
def rfcBody (p : SPred) : Stmt := .ite (.anyS fDNS p) (.ret 6) (.ret 3)

/-- `c.Subject.CommonName != "" && !util.CommonNameIsIP(c)` -/
def cnJudged : Cond := .and (.not (.strEq fCN [])) (.not (.not (.strP fCN (.ext idParseIPnil))))

/-- `if cnJudged { if P(cn) { return Error } }` followed by the RFC copy's loop -/
def brBody (p : SPred) : Stmt := .ite cnJudged (.ite (.strP fCN p) (.ret 6) (rfcBody p)) (rfcBody p)

/-- **The four bodies, as translated from the source now, are these terms.** -/
theorem label_bodies :
    bodyOf "e_rfc_dnsname_label_too_long" = some (rfcBody tooLongP)
    ∧ bodyOf "e_dnsname_label_too_long" = some (brBody tooLongP)
    ∧ bodyOf "e_rfc_dnsname_empty_label" = some (rfcBody emptyP)
    ∧ bodyOf "e_dnsname_empty_label" = some (brBody emptyP) := by decide +kernel

/-- the two copies also apply to the same certificates -/
theorem label_applies_equal :
    (ruleNamed "e_rfc_dnsname_label_too_long").map (·.applies) = (ruleNamed "e_dnsname_label_too_long").map (·.applies)
    ∧ (ruleNamed "e_rfc_dnsname_empty_label").map (·.applies) = (ruleNamed "e_dnsname_empty_label").map (·.applies)
    ∧ (ruleNamed "e_dnsname_label_too_long").isSome ∧ (ruleNamed "e_dnsname_empty_label").isSome := by decide +kernel

/-! ### the element predicates are the hand-written models -/

theorem anyLabel_tooLong (env : Env) (d : Bytes) : tooLongP.eval env d = Names.labelTooLong d := by
  simp only [tooLongP, SPred.eval, Cmp.eval, Names.labelTooLong]
  congr 1; funext l; simp; omega

theorem anyLabel_empty (env : Env) (d : Bytes) : emptyP.eval env d = Names.hasEmptyLabel d := by
  simp only [emptyP, SPred.eval, Names.hasEmptyLabel]
  congr 1; funext l; cases l <;> simp

theorem beq_cast_comm (a k : Nat) : (((a : Int) == (k : Int)) : Bool) = (k == a) := by
  by_cases h : a = k
  · subst h; simp
  · have h1 : ((a : Int) == (k : Int)) = false := by
      apply beq_false_of_ne; omega
    have h2 : (k == a) = false := by
      apply beq_false_of_ne; exact fun e => h e.symm
    rw [h1, h2]

theorem anyByte_notAscii (env : Env) (s : Bytes) : (SPred.anyByte 0 .gt 127).eval env s = Names.notAscii s := by
  simp only [SPred.eval, Cmp.eval, Names.notAscii, List.drop_zero]
  congr 1; funext x; simp; omega

theorem anyByte_null (env : Env) (s : Bytes) : (SPred.anyByte 0 .eq 0).eval env s = Names.hasNull s := by
  simp only [SPred.eval, Cmp.eval, Names.hasNull, List.drop_zero]
  induction s with
  | nil => rfl
  | cons a r ih => simp only [List.any_cons, List.contains_cons, ih]; congr 1; exact beq_cast_comm a 0

theorem anyByte_wildcardNotFirst (env : Env) (s : Bytes) : (SPred.anyByte 1 .eq 42).eval env s = Names.wildcardNotFirst s := by
  simp only [SPred.eval, Cmp.eval, Names.wildcardNotFirst]
  induction (s.drop 1) with
  | nil => rfl
  | cons a r ih => simp only [List.any_cons, List.contains_cons, ih]; congr 1; exact beq_cast_comm a 42

/-- the octet-scanning SAN rules, as translated now, are one loop with these predicates -/
theorem octet_bodies :
    bodyOf "e_ext_san_uri_not_ia5" = some (.ite (.anyS (fieldId "URIs") (.anyByte 0 .gt 127)) (.ret 6) (.ret 3))
    ∧ bodyOf "e_san_dns_name_includes_null_char" = some (rfcBody (.anyByte 0 .eq 0))
    ∧ bodyOf "e_san_wildcard_not_first" = some (rfcBody (.anyByte 1 .eq 42)) := by decide +kernel

/-! ### what the terms compute -/

theorem rfcBody_eval (env : Env) (v : View) (p : SPred) :
    evalS env v (rfcBody p) = some (if (v.list fDNS).strs.any (p.eval env) then 6 else 3) := by
  simp only [rfcBody, evalS, evalC]
  cases (v.list fDNS).strs.any (p.eval env) <;> simp

/-- the common name is judged: non-empty and not an IP literal -/
def cnIsJudged (env : Env) (v : View) : Bool := !(v.str fCN == []) && !(env.pred idParseIPnil (v.str fCN)) == false

theorem cnJudged_eval (env : Env) (v : View) : evalC env v cnJudged = some (cnIsJudged env v) := by
  simp only [cnJudged, evalC, SPred.eval, cnIsJudged, Option.map_some]
  cases h1 : (v.str fCN == []) <;> cases h2 : env.pred idParseIPnil (v.str fCN) <;> simp

theorem brBody_eval (env : Env) (v : View) (p : SPred) :
    evalS env v (brBody p) = if cnIsJudged env v && p.eval env (v.str fCN) then some 6 else evalS env v (rfcBody p) := by
  simp only [brBody, evalS, cnJudged_eval, evalC]
  cases cnIsJudged env v <;> cases p.eval env (v.str fCN) <;> simp

/-- **The two copies agree** on every certificate whose common name is not judged or is not itself offending
    (C20: same conclusion on the same content). -/
theorem br_agrees_with_rfc (env : Env) (v : View) (p : SPred) (h : (cnIsJudged env v && p.eval env (v.str fCN)) = false) :
    evalS env v (brBody p) = evalS env v (rfcBody p) := by
  rw [brBody_eval, h]; simp

/-- **whenever the RFC copy reports the error, so does the CA/B-Forum copy** (the BR copy is the stricter one) -/
theorem rfc_error_implies_br_error (env : Env) (v : View) (p : SPred) (h : evalS env v (rfcBody p) = some 6) :
    evalS env v (brBody p) = some 6 := by
  rw [brBody_eval]
  cases (cnIsJudged env v && p.eval env (v.str fCN)) <;> simp [h]

/-- instantiated on the regenerated table: the label-length pair -/
theorem label_too_long_pair (env : Env) (v : View) (a b : Stmt)
    (ha : bodyOf "e_rfc_dnsname_label_too_long" = some a) (hb : bodyOf "e_dnsname_label_too_long" = some b)
    (h : (cnIsJudged env v && Names.labelTooLong (v.str fCN)) = false) : evalS env v b = evalS env v a := by
  rw [label_bodies.1] at ha; rw [label_bodies.2.1] at hb; cases ha; cases hb
  exact br_agrees_with_rfc env v tooLongP (by rw [anyLabel_tooLong]; exact h)

/-- … and the empty-label pair -/
theorem empty_label_pair (env : Env) (v : View) (a b : Stmt)
    (ha : bodyOf "e_rfc_dnsname_empty_label" = some a) (hb : bodyOf "e_dnsname_empty_label" = some b)
    (h : (cnIsJudged env v && Names.hasEmptyLabel (v.str fCN)) = false) : evalS env v b = evalS env v a := by
  rw [label_bodies.2.2.1] at ha; rw [label_bodies.2.2.2] at hb; cases ha; cases hb
  exact br_agrees_with_rfc env v emptyP (by rw [anyLabel_empty]; exact h)

/-- what the RFC copy of the label-length rule decides, in terms of the hand-written model: an error exactly when some
    dNSName has a label longer than 63 octets — whatever the order of the names (`List.any`) -/
theorem rfc_label_too_long_exact (env : Env) (v : View) (a : Stmt) (ha : bodyOf "e_rfc_dnsname_label_too_long" = some a) :
    evalS env v a = some 6 ↔ ∃ d ∈ (v.list fDNS).strs, Names.labelTooLong d = true := by
  rw [label_bodies.1] at ha; cases ha
  rw [rfcBody_eval]
  cases h : (v.list fDNS).strs.any (tooLongP.eval env)
  · simp only [Bool.false_eq_true, if_false]
    constructor
    · intro c; cases c
    · rintro ⟨d, hd, hl⟩
      have : (v.list fDNS).strs.any (tooLongP.eval env) = true := List.any_eq_true.mpr ⟨d, hd, by rw [anyLabel_tooLong]; exact hl⟩
      rw [h] at this; cases this
  · simp only [if_true, true_iff]
    obtain ⟨d, hd, hl⟩ := List.any_eq_true.mp h
    exact ⟨d, hd, by rw [← anyLabel_tooLong env]; exact hl⟩

/-- non-vacuity: a 64-octet label is offending, a 63-octet label is not -/
example : Names.labelTooLong (List.replicate 64 97 ++ [46, 99]) = true ∧ Names.labelTooLong (List.replicate 63 97 ++ [46, 99]) = false := by
  decide +kernel

end Zl.NamesTerms
