/-
  Pins11 — the hand-written models that C11's theorems are stated over were written from the text of the functions listed in
  /verif/modelled_functions.json. This obligation (regenerated on every run) says that text is still the text in /repo:
  a model of a function whose text has changed is no longer known to describe the code, whatever the sampled
  correspondence says.
-/
import ZlModel.Generated.PanicSites
namespace Zl.Pins11

theorem modelled_text_unchanged : Generated.pinsHold 11 = true := by decide +kernel

/-- the statement is about a non-empty list -/
theorem pins_nonempty : decide (0 < Generated.pinCount 11) = true := by decide +kernel

end Zl.Pins11
